package props

import (
	"fmt"
	"go/constant"
	"go/token"
	"go/types"
	"os"
	"strings"

	"golang.org/x/tools/go/ssa"

	"resverif/core"
)

func init() {
	register("C12", c12)
	register("C13", c13)
	register("C14", c14)
}

const badgerPath = "github.com/dgraph-io/badger"

func isBadgerCall(c ssa.CallInstruction, recv, name string) bool {
	cal := c.Common().StaticCallee()
	return cal != nil && cal.String() == "(*"+badgerPath+"."+recv+")."+name
}

func isTxnWrite(c ssa.CallInstruction) bool {
	return isBadgerCall(c, "Txn", "Set") || isBadgerCall(c, "Txn", "SetEntry") || isBadgerCall(c, "Txn", "Delete")
}

// updateClosure returns the closure passed to a DB.Update/View call.
func closureArg(c ssa.CallInstruction) *ssa.Function {
	if len(c.Common().Args) < 2 {
		return nil
	}
	switch v := c.Common().Args[1].(type) {
	case *ssa.MakeClosure:
		f, _ := v.Fn.(*ssa.Function)
		if m := boundMethod(f); m != nil {
			return m // a method value (x.method) handed over as the closure
		}
		return f
	case *ssa.Function:
		return v
	}
	return nil
}

// boundMethod returns the declared method behind a bound-method wrapper.
func boundMethod(f *ssa.Function) *ssa.Function {
	if f == nil || !strings.HasPrefix(f.Synthetic, "bound method wrapper") {
		return nil
	}
	if obj, ok := f.Object().(*types.Func); ok {
		return f.Prog.FuncValue(obj)
	}
	return nil
}

// boundSites lists the calls (in fns) that receive method fn as a method value argument.
func boundSites(fns []*ssa.Function, fn *ssa.Function) []ssa.CallInstruction {
	var out []ssa.CallInstruction
	for _, g := range fns {
		for _, c := range core.Calls(g) {
			for _, a := range c.Common().Args {
				if mc, ok := a.(*ssa.MakeClosure); ok {
					if w, _ := mc.Fn.(*ssa.Function); boundMethod(w) == fn && fn != nil {
						out = append(out, c)
					}
				}
			}
		}
	}
	return out
}

// txnFromUpdate: v is the txn parameter of a closure passed directly to
// DB.Update, or a parameter of a declared function whose every call site
// passes such a value.
func txnFromUpdate(v ssa.Value, fns []*ssa.Function, depth int) (bool, string) {
	if depth > 4 {
		return false, "too deep"
	}
	prm, ok := v.(*ssa.Parameter)
	if !ok {
		if fv, ok := v.(*ssa.FreeVar); ok {
			if b := core.BindingOf(fv); b != nil {
				// a captured txn: allowed only if the capturing closure is called synchronously (iterator callbacks);
				// trace the binding
				if u, ok := b.(*ssa.Alloc); ok {
					_ = u
				}
				return txnFromUpdate(b, fns, depth+1)
			}
		}
		if u, ok := v.(*ssa.UnOp); ok && u.Op == token.MUL {
			if al, ok := u.X.(*ssa.Alloc); ok && al.Referrers() != nil {
				for _, rf := range *al.Referrers() {
					if st, ok := rf.(*ssa.Store); ok && st.Addr == ssa.Value(al) {
						return txnFromUpdate(st.Val, fns, depth+1)
					}
				}
			}
			if fv, ok := u.X.(*ssa.FreeVar); ok {
				if b := core.BindingOf(fv); b != nil {
					if al, ok := b.(*ssa.Alloc); ok && al.Referrers() != nil {
						for _, rf := range *al.Referrers() {
							if st, ok := rf.(*ssa.Store); ok && st.Addr == ssa.Value(al) {
								return txnFromUpdate(st.Val, fns, depth+1)
							}
						}
					}
				}
			}
		}
		return false, "receiver is " + valDesc(v) + ", not a transaction parameter"
	}
	fn := prm.Parent()
	if fn.Parent() != nil || len(core.ClosureSites(fn)) > 0 {
		// closure: must be the argument of DB.Update
		par := fn.Parent()
		if par == nil {
			return false, "closure without parent"
		}
		for _, c := range core.Calls(par) {
			if closureArg(c) == fn {
				if isBadgerCall(c, "DB", "Update") {
					return true, ""
				}
				return false, "closure is passed to " + core.CalleeName(c) + ", not DB.Update"
			}
		}
		return false, "closure is not passed directly to DB.Update"
	}
	idx := -1
	for i, q := range fn.Params {
		if q == prm {
			idx = i
		}
	}
	cs := callsTo(fns, fn)
	bs := boundSites(fns, fn)
	if len(cs) == 0 && len(bs) == 0 {
		return false, "helper " + core.FuncName(fn) + " has no static caller"
	}
	for _, c := range bs {
		// a method value used as the update closure: the parameter after the receiver is the txn
		if !(isBadgerCall(c, "DB", "Update") && closureArg(c) == fn && idx == 1) {
			return false, "method value " + core.FuncName(fn) + " is passed to " + core.CalleeName(c) + ", not DB.Update"
		}
	}
	for _, c := range cs {
		if core.IsGo(c) {
			return false, "helper started with go"
		}
		if ok, why := txnFromUpdate(c.Common().Args[idx], fns, depth+1); !ok {
			return false, "caller " + core.FuncName(c.Parent()) + ": " + why
		}
	}
	return true, ""
}

// txnRule is C12.T1 / C20.T1 for one package.
func txnRule(r *core.Run, rule, rel string) int {
	p := r.P
	fns := p.FuncsOfPkg(rel)
	n := 0
	for _, fn := range fns {
		for _, c := range core.Calls(fn) {
			if !isTxnWrite(c) {
				continue
			}
			n++
			ok, why := txnFromUpdate(c.Common().Args[0], fns, 0)
			r.Check(ok && !core.IsGo(c), rule, core.FuncName(fn), "txn-write:"+c.Common().StaticCallee().Name()+"-inside-one-update-closure", p.InstrPos(c),
				"the write is made on the transaction handed to a DB.Update closure", "a database write happens outside a single DB.Update transaction: "+why)
		}
		// the txn value must not be stored or handed to a goroutine
		for _, c := range core.Calls(fn) {
			if core.IsGo(c) {
				for _, a := range c.Common().Args {
					if strings.HasSuffix(core.TypeName(a.Type()), "badger.Txn") {
						r.Bad(rule, core.FuncName(fn), "txn-not-passed-to-goroutine", p.InstrPos(c), "a transaction is handed to a goroutine")
					}
				}
			}
		}
	}
	return n
}

func c12(r *core.Run) {
	p := r.P
	rel := "store/badgerstore"
	r.Explanation = "Who-may-call and must-pass-through facts for the BadgerDB store: every write on a badger transaction is made on the parameter of a closure passed directly to DB.Update (through helpers whose every caller does so); each mutation method runs exactly one DB.Update on every success path and acknowledges (nil / change callbacks) only on its err==nil edge; Init reads the marker, seeds and sets the marker in one and the same closure, the marker read dominating the seed callback and every write, the found edge writing nothing, the marker write last, existing ids skipped; RebuildIndexes drops every index prefix before its single re-scan transaction and skips nil keys. These are necessary conditions of the crash property; crash points themselves are not enumerated."
	r.NotDecided = []string{"crash points, fsync / SyncWrites (a user option), BadgerDB's own recovery", "that index queries agree after RebuildIndexes for every configuration (an empty store prefix also scans non-value keys)"}
	r.Assumptions = []string{"DB.Update commits atomically iff it returns nil (BadgerDB contract)"}

	r.Rule("T1", "writes only inside one update closure: Set/SetEntry/Delete on a badger.Txn are invoked on the parameter of a func literal passed directly to DB.Update (or a helper all of whose callers pass such a value); the txn never goes to a goroutine", 5)
	r.Rule("T2", "one transaction per mutation, ack after commit: Create/Update/Delete call DB.Update exactly once on every path to a nil return, never twice, and the nil return is on the err==nil edge of that call", 6)
	r.Rule("I1", "Init seeds once: a single DB.Update whose closure reads the marker first (dominating the seed callback and every write), returns on the found edge without writing, writes the marker on the same transaction after all seeds, and skips ids that already exist", 6)
	r.Rule("I2", "Init announces what it wrote: the seeds handed to the change listeners are collected only after their database write, so an id skipped because it already holds a value is not announced", 1)
	r.Rule("X1", "rebuild: every index prefix is dropped before the single re-scan transaction, the dropped prefix is the index's own query prefix, and nil keys are not written", 3)

	r.Rule("B1", "a mutation works from the stored value (shared with C11.K2): the value a write transaction caches is dead or refreshed by every mutation; a later mutation of the same transaction that decides from a stale cached value (not found / unchanged / what to diff) can return success without the database holding what was acknowledged", 1)
	c11CacheCoherence(r, "B1", rel)
	n := txnRule(r, "T1", rel)
	r.Analysed["txn_write_sites"] = n
	r.Rule("T3", "reads a write depends on are tracked by the writing transaction: inside a DB.Update closure (and the helpers it calls) every Txn.Get and Txn.NewIterator is made on the transaction of a DB.Update closure, never on a transaction opened inside it (DB.NewTransaction, DB.View): BadgerDB detects a conflicting concurrent write only for keys read through the committing transaction, so values scanned on a side snapshot can be overwritten before the commit without the commit failing - the rebuild then persists index entries computed from values that are no longer stored", 3)
	c12ReadsOnWritingTxn(r, "T3", rel)
	r.Rule("T4", "the id of a stored value is its key minus the store's prefix, exactly (shared with C17.G9): the badger store never strips the prefix with a cutset function (Trim / TrimLeft / TrimRight with a variable set) - RebuildIndexes derives the id it indexes from the key, and an id whose first characters occur in the prefix would be indexed under a truncated id that no value has", 1)
	c17ExactTokens(r, "T4", []string{rel}, "badgerstore")
	r.Rule("T5", "what the rebuilt index returns is the stored id (shared with C13.K1): the reader of index entries splits at the last separator byte, so an index key that itself contains the separator (binary keys) cannot shift the boundary between key and id", 1)
	c13ReaderSplitsLast(r, "T5", rel)
	r.Rule("T7", "after RebuildIndexes a paged, filtered query agrees with the stored values (shared with C13.W2): in the index scan the offset and the limit are counted down, and an id is appended, only for an entry the key filter accepted - an offset consumed by entries the filter rejects starts the page too early", 3)
	if fc := methodNamed(p, "store/badgerstore", "IndexQuery", "FetchCollection"); fc != nil {
		c13WindowAfterFilter(r, "T7", fc)
	} else {
		r.Unres("T7", "IndexQuery.FetchCollection", "missing")
	}
	r.Rule("T9", "after RebuildIndexes a query returns only values that match its prefix (shared with C13.K9): an index entry contributes its id only behind a comparison of the id separator's position with the length of the prefix the iterator matches with (index name, ':' and key prefix) - compared with the bare key prefix, which is shorter by the name, a prefix that ends in the separator byte matches through the separator into the ids and returns values whose key is only a prefix of the one asked for", 1)
	c13PrefixInsideKey(r, "T9", rel)
	r.Rule("T8", "after RebuildIndexes an unlimited query returns every matching value (shared with C13.W1): a negative limit is mapped to max-int in the index scan, not to a buffer size", 1)
	if fc := methodNamed(p, "store/badgerstore", "IndexQuery", "FetchCollection"); fc != nil {
		r.Check(c13NegativeLimitIsUnlimited(fc), "T8", core.FuncName(fc), "negative-limit->max-int", p.Pos(fc.Pos()), "negative limit means unlimited", "a negative limit is not mapped to max-int: an unlimited query is cut off at some fixed number of ids although every value and every index entry is present")
	} else {
		r.Unres("T8", "IndexQuery.FetchCollection", "missing")
	}
	r.Rule("T6", "an acknowledged write went to the key of its own id (shared with C11.K3 / C16.O4): no database key is built by appending to a slice kept in the store - with spare capacity every open transaction's key is the same memory, and a second transaction redirects the first one's write to another id", 1)
	c16NoForeignAppend(r, "T6", []string{rel}, "badgerstore")
	c12InitAnnounce(r, "I2", rel)
	r.Rule("I3", "all-or-nothing seeding: in the function Init hands to the user's callback every return that did not collect the entry has recorded a non-nil error in the variable that the transaction body returns after the callback (or found one recorded already), and the transaction body returns that variable when it is non-nil before it writes anything; an invalid seed that is merely skipped lets Init commit the marker over a partial seed set", 2)
	c12InitAllOrNothing(r, "I3", rel)

	// ---- T2 --------------------------------------------------------------
	for _, name := range []string{"Create", "Update", "Delete"} {
		m := methodNamed(p, rel, "writeTxn", name)
		if m == nil {
			r.Unres("T2", "writeTxn."+name, "missing")
			continue
		}
		// no DB.Update in nested closures
		for _, a := range m.AnonFuncs {
			for _, f2 := range withAnon(a) {
				for _, c := range core.Calls(f2) {
					if isBadgerCall(c, "DB", "Update") {
						r.Bad("T2", core.FuncName(f2), "no-nested-update", p.InstrPos(c), "a second transaction is opened from inside the mutation's closure")
					}
				}
			}
		}
		fl := &core.Flow{Fn: m, Entry: core.StateSet(0).Add(0)}
		fl.Transfer = func(in ssa.Instruction, s int) core.StateSet {
			if c, ok := in.(*ssa.Call); ok && isBadgerCall(c, "DB", "Update") && s < 2 {
				s++
			}
			return core.StateSet(0).Add(s)
		}
		res := fl.Run()
		var upd ssa.CallInstruction
		for _, c := range core.Calls(m) {
			if isBadgerCall(c, "DB", "Update") {
				upd = c
			}
		}
		for _, ret := range core.Returns(m) {
			st := res.Before[ret]
			if st.Empty() {
				continue
			}
			var conds []string
			for _, ed := range dominatingEdges(ret) {
				conds = append(conds, describeCond(ed))
			}
			if isNilConst(ret.Results[0]) {
				onOK := false
				if upd != nil {
					for _, ed := range dominatingEdges(ret) {
						ci := core.Cond(ed.If.Cond)
						if ci.Kind == "nilcmp" && ci.X == upd.Value() {
							truth := ed.Succ == 0
							if ci.Negate {
								truth = !truth
							}
							if (ci.Op == token.EQL) == truth {
								onOK = true
							}
						}
					}
				}
				r.Check(st.Only(1) && onOK, "T2", core.FuncName(m), "nil-return:one-update,after-commit", p.InstrPos(ret), "success is acknowledged after exactly one committed transaction", fmt.Sprintf("success return with %v DB.Update calls on some path, or not on the commit's err==nil edge (%v)", st.List(), onOK))
			} else {
				r.Check(!st.Has(2), "T2", core.FuncName(m), "error-return:at-most-one-update:"+returnDesc(ret, conds), p.InstrPos(ret), "at most one transaction was attempted", "two transactions on a path")
			}
		}
	}

	// ---- I1 --------------------------------------------------------------
	init := methodNamed(p, rel, "Store", "Init")
	if init == nil {
		r.Unres("I1", "Store.Init", "missing")
	} else {
		var upds []ssa.CallInstruction
		for _, f2 := range withAnon(init) {
			for _, c := range core.Calls(f2) {
				if isBadgerCall(c, "DB", "Update") {
					upds = append(upds, c)
				}
			}
		}
		r.Check(len(upds) == 1 && upds[0].Parent() == init, "I1", core.FuncName(init), "single-update", p.Pos(init.Pos()), "Init runs one transaction", fmt.Sprintf("Init runs %d transactions: a crash between them leaves seeds without the marker (re-seeding duplicates or resurrects) or the marker without seeds", len(upds)))
		if len(upds) >= 1 {
			cl := closureArg(upds[0])
			if cl == nil {
				r.Bad("I1", core.FuncName(init), "update-closure", p.InstrPos(upds[0]), "DB.Update is not given a func literal")
			} else {
				var get, set ssa.CallInstruction
				var gets []ssa.CallInstruction
				for _, c := range core.Calls(cl) {
					if isBadgerCall(c, "Txn", "Get") {
						gets = append(gets, c)
					}
				}
				// marker = key used by both a Get and a Set in the closure
				for _, c := range core.Calls(cl) {
					if isBadgerCall(c, "Txn", "Set") {
						for _, g := range gets {
							if g.Common().Args[1] == c.Common().Args[1] {
								get, set = g, c
							}
						}
					}
				}
				if (get == nil || set == nil) && c12InitUnit(r, cl, rel) {
					// judged in its helper-aware form
				} else if get == nil || set == nil {
					r.Bad("I1", core.FuncName(cl), "marker-read-and-written-in-closure", p.Pos(cl.Pos()), "the init marker is not both read and written on this transaction")
				} else {
					r.OK("I1", core.FuncName(cl), "marker-read-and-written-in-closure", p.InstrPos(set), "same key value is read and set on the closure's transaction")
					rok, _ := txnFromUpdate(set.Common().Args[0], p.FuncsOfPkg(rel), 0)
					r.Check(rok && set.Common().Args[0] == get.Common().Args[0], "I1", core.FuncName(cl), "marker-on-same-txn", p.InstrPos(set), "marker read and write use the closure's own transaction", "marker write is on a different transaction than the read")
					// dominance over seed callback and writes
					good := true
					why := ""
					isWrite := func(in ssa.Instruction) bool {
						c, ok := in.(ssa.CallInstruction)
						if !ok {
							return false
						}
						if isTxnWrite(c) {
							return true
						}
						cal := c.Common().StaticCallee()
						return cal != nil && isStoreSetValue(cal)
					}
					for _, c := range core.Calls(cl) {
						if (core.IsDynamic(c) || isWrite(c)) && c != set && !core.Dominates(get, c) {
							good = false
							why = "call at " + p.InstrPos(c) + " is not dominated by the marker read"
						}
					}
					r.Check(good, "I1", core.FuncName(cl), "marker-read-dominates-seeding", p.InstrPos(get), "the marker is read before the seed callback runs and before any write", why)
					// found edge writes nothing
					foundOK := false
					ev := get.Value()
					if ev.Referrers() != nil {
						for _, rf := range *ev.Referrers() {
							ex, ok := rf.(*ssa.Extract)
							if !ok || ex.Index != 1 || ex.Referrers() == nil {
								continue
							}
							for _, r2 := range *ex.Referrers() {
								bo, ok := r2.(*ssa.BinOp)
								if !ok || bo.Referrers() == nil {
									continue
								}
								if f, ok := loadedGlobal(bo.Y); !ok || f != "ErrKeyNotFound" {
									continue
								}
								for _, r3 := range *bo.Referrers() {
									if iff, ok := r3.(*ssa.If); ok {
										succ := 0
										if bo.Op == token.EQL {
											succ = 1
										}
										if ok2, _ := edgeAvoids(iff.Block().Succs[succ], isWrite); ok2 {
											if ok3, _ := edgeAvoids(iff.Block().Succs[succ], func(in ssa.Instruction) bool {
												c, ok := in.(ssa.CallInstruction)
												return ok && core.IsDynamic(c)
											}); ok3 {
												foundOK = true
											}
										}
									}
								}
							}
						}
					}
					r.Check(foundOK, "I1", core.FuncName(cl), "found-edge-writes-nothing", p.InstrPos(get), "when the marker exists (or the read fails) nothing is seeded and no callback runs", "the already-initialised edge can still seed or call back")
					// marker write is last
					last, _ := core.PathFree(set, nil, func(in ssa.Instruction) bool { return isWrite(in) })
					r.Check(last, "I1", core.FuncName(cl), "marker-written-last", p.InstrPos(set), "no write follows the marker write", "a write follows the marker write")
					c12MarkerOnEverySuccess(r, cl, set, func(in ssa.Instruction) bool {
						c, ok := in.(ssa.CallInstruction)
						return ok && (isWrite(in) || core.IsDynamic(c))
					})
					// existing ids skipped: setValue dominated by a Get(...) err!=nil edge other than the marker's
					skipOK := false
					for _, c := range core.Calls(cl) {
						cal := c.Common().StaticCallee()
						if cal == nil || !isStoreSetValue(cal) {
							continue
						}
						for _, ed := range dominatingEdges(c) {
							d := describeCond(ed)
							if strings.Contains(d, "extract:call:(*"+badgerPath+".Txn).Get") && strings.HasSuffix(d, "!=nil") {
								skipOK = true
							}
							// the existence test may be a helper's bool result (found, err := hasKey(txn, key)):
							// what taking this edge implies inside the helper
							for _, d2 := range impliedConds(ed, 0) {
								if os.Getenv("RV_DEBUG_I1") != "" {
									fmt.Fprintln(os.Stderr, "I1 direct skip implied:", d2)
								}
								if strings.Contains(d2, "Txn).Get") && (strings.HasSuffix(d2, "!=nil") || (strings.Contains(d2, "==global:ErrKeyNotFound") && !strings.HasPrefix(d2, "!"))) {
									skipOK = true
								}
							}
						}
					}
					if !skipOK {
						// the per-seed step may sit in a private helper (createIfMissing): every seed write of
						// the unit lies behind a failed read of its key
						all, n := true, 0
						for _, h := range p.Helpers(cl) {
							if h == cl || isStoreSetValue(h) {
								continue
							}
							for _, c := range core.Calls(h) {
								cal := c.Common().StaticCallee()
								if cal == nil || !(isTxnWrite(c) || isStoreSetValue(cal)) {
									continue
								}
								n++
								ok := false
								for _, ed := range dominatingEdges(c) {
									for _, d := range impliedConds(ed, 0) {
										if strings.Contains(d, "Txn).Get") && strings.HasSuffix(d, "!=nil") {
											ok = true
										}
									}
								}
								if !ok {
									all = false
								}
							}
						}
						skipOK = all && n > 0
					}
					r.Check(skipOK, "I1", core.FuncName(cl), "existing-ids-skipped", p.Pos(cl.Pos()), "a seed is written only when reading its key failed (not found)", "seeds overwrite existing values")
				}
			}
		}
	}

	// ---- X1 --------------------------------------------------------------
	rb := methodNamed(p, rel, "QueryStore", "RebuildIndexes")
	if rb == nil {
		r.Unres("X1", "QueryStore.RebuildIndexes", "missing")
		return
	}
	var drop, upd ssa.CallInstruction
	nUpd := 0
	for _, c := range helperCalls(p, rb) {
		if isBadgerCall(c, "DB", "DropPrefix") {
			drop = c
		}
		if isBadgerCall(c, "DB", "Update") {
			upd = c
			nUpd++
		}
	}
	r.Check(drop != nil && upd != nil && nUpd == 1 && p.ReachesIn(rb, drop, upd) && !p.ReachesIn(rb, upd, drop), "X1", core.FuncName(rb), "drop-before-single-rescan", p.Pos(rb.Pos()), "all index prefixes are dropped before the one re-scan transaction", "indexes are not dropped before a single re-scan transaction")
	if drop != nil {
		// argument: getQuery(nil)
		argOK := false
		if va := elemOfVarargs(drop.Common().Args[1]); va != nil {
			if c, ok := va.(*ssa.Call); ok && c.Common().StaticCallee() != nil && c.Common().StaticCallee() == resolveIdxRoles(p, rel).getQuery && isNilConst(c.Common().Args[1]) {
				argOK = true
			}
		}
		r.Check(argOK, "X1", core.FuncName(rb), "dropped-prefix==index-query-prefix", p.InstrPos(drop), "DropPrefix(idx.getQuery(nil)): exactly the keys FetchCollection can see for this index", "the dropped prefix is not the index's own query prefix")
	}
	if upd != nil {
		if cl := closureArg(upd); cl != nil {
			for _, c := range helperCalls(p, cl) {
				if isBadgerCall(c, "Txn", "Set") {
					nn := false
					for _, ed := range ctxEdges(p, c, cl, 0) { // the Set may sit in a helper called behind the test
						if strings.HasSuffix(describeCond(ed), "!=nil") && strings.Contains(describeCond(ed), "Key") || strings.HasSuffix(describeCond(ed), "!=nil") && !strings.Contains(describeCond(ed), "extract") {
							nn = true
						}
					}
					r.Check(nn, "X1", core.FuncName(cl), "nil-keys-not-indexed", p.InstrPos(c), "index entries are written only for non-nil keys", "rebuild writes index entries for nil keys")
				}
			}
			// every stored item is decoded into a fresh value: json.Unmarshal does not reset its target,
			// so a value allocated once outside the scan loop keeps fields of the previous item
			var scanFns []*ssa.Function
			for _, h := range p.Helpers(cl) {
				scanFns = append(scanFns, withAnon(h)...)
			}
			for _, f2 := range scanFns {
				for _, c := range core.Calls(f2) {
					if cal := c.Common().StaticCallee(); cal != nil && cal.String() == "reflect.New" && (len(rangeLoopHead(f2)) > 0 || f2 != cl) {
						inLoop := core.Reaches(c, c)
						if !inLoop {
							// created in a per-item helper: the helper's call lies in the scan loop
							for _, site := range p.Lift(c, cl) {
								if core.Reaches(site, site) {
									inLoop = true
								}
							}
						}
						r.Check(inLoop, "X1", core.FuncName(f2), "decode-target-allocated-per-item", p.InstrPos(c), "the value decoded into is created inside the scan loop", "the value that stored items are decoded into is created once, outside the scan loop: members absent from an item's JSON (omitempty fields, map keys) keep the previous item's content, and the rebuilt index gets entries for values that do not have that key")
					}
				}
			}
		}
	}
}

func loadedGlobal(v ssa.Value) (string, bool) {
	u, ok := core.Strip(v).(*ssa.UnOp)
	if !ok || u.Op != token.MUL {
		return "", false
	}
	g, ok := u.X.(*ssa.Global)
	if !ok {
		return "", false
	}
	return g.Name(), true
}

// ---- C13 -------------------------------------------------------------------------

func c13(r *core.Run) {
	p := r.P
	rel := "store/badgerstore"
	r.Explanation = "Writer/reader agreement and API-usage rules for the index: both key builders fill their buffers exactly (symbolic linear layout over len(name), len(key), len(id)), they share the ':' and separator constants with the reader, which splits at the last separator and strips len(name)+1; index entries are only written for non-nil keys; index maintenance runs only inside the task handed to the FIFO task queue that Flush awaits, and the change handler is registered on the store; a badger iterator that may run in reverse is not positioned with the bare prefix that ValidForPrefix tests (in reverse that seeks before the whole prefix range); limit 0 returns before iterating and a negative limit becomes max-int. Decides layout/agreement/usage; the sorted-filtered-windowed result itself is arithmetic over data and is not decided."
	r.NotDecided = []string{"equality of the result with a reference scan (offset/limit/filter arithmetic)", "completeness of third-party taskqueue.Flush", "index keys that themselves continue with 0xFF bytes in reverse mode (documented BadgerDB idiom limit)"}
	r.Assumptions = []string{"badger iterates keys bytewise; Seek(k) in reverse positions at the largest key <= k", "taskqueue runs tasks in FIFO order on one goroutine"}

	r.Rule("K1", "key layout: getKey = name ':' key SEP id and getQuery = name ':' prefix fill their buffers exactly for every input length and use the same constants; the reader splits at the last SEP (the same constant) and strips len(name)+1", 5)
	r.Rule("K2", "nil keys are never indexed: every index Set in the maintenance path is dominated by the key != nil edge", 2)
	r.Rule("K3", "nil vs empty key: index maintenance skips an index only when the key is truly unchanged (both nil, or both non-nil and equal): bytes.Equal is evaluated only under both-non-nil", 1)
	r.Rule("K10", "the before-value of a mutation is what is stored: wherever the store decodes stored bytes through reflection, the reflect.Value whose Interface() is handed to json.Unmarshal comes from reflect.New in this very call on every path - a pooled or cached target keeps the members the text does not mention (omitempty, null) from the value decoded before, the index update computes the old key from that, and entries are left behind or never written", 1)
	c13DecodeTargetFresh(r, "K10", "store/badgerstore")
	r.Rule("K9", "the prefix is matched against the key, not the id: the scan accepts an entry only behind a comparison of the id separator's position with the length of the query prefix (badger's prefix match runs over the whole entry, separator and id included)", 1)
	c13PrefixInsideKey(r, "K9", rel)
	r.Rule("K8", "an empty key is a key (shared with C14.N5): nothing in the query store decides from the length of an index key - 'not indexed' is the nil key; a length test makes the empty key of a value with an empty indexed member count as no key", 1)
	c13KeyPresenceByNil(r, "K8", rel)
	r.Rule("Q1", "maintenance funnel: updateIndex is called only from the func literal handed to the task queue's Do in the change handler; the change handler is registered on the store by the constructor; Flush calls the queue's Flush", 3)
	r.Rule("D1", "iteration direction: when the iterator options' Reverse can be true, the key passed to Seek is not the very value passed to ValidForPrefix", 1)
	r.Rule("B1", "before-values are the stored values (shared with C11.K2): the value cached in a store transaction is dead or refreshed by every mutation; index deltas are computed from the before-value a mutation reports, so a stale one deletes the wrong entry and orphans the right one", 1)
	r.Rule("W1", "window guards: limit==0 returns an empty result before the database is touched; a negative limit is replaced by max-int", 2)
	r.Rule("K7", "the index learns of committed values only (shared with C11.C1): the store's mutations notify their change listeners - which queue the index maintenance - after the transaction returned successfully, not inside its closure; a Create announced before a commit that then fails leaves an index entry for a value that was never stored", 3)
	r.Rule("K6", "every index is maintained: inside a loop over the query store's indexes (index maintenance, rebuild) nothing returns success - a `return nil` in place of `continue` ends the transaction body after the first index whose key is unchanged, and the remaining indexes (map order) keep stale entries", 1)
	r.Rule("W2", "filter first, then the window: in the index scan the offset and the limit are counted down, and an id is appended, only for an entry the key filter accepted (typestate reset by every iterator step); entries the filter rejects must not consume offset or limit", 3)
	r.Rule("K5", "the index only learns of values that are stored (shared with C12.I2): the index is maintained from the store's change notifications, and Init announces as created only the seeds it actually wrote (every insertion into the announced collection follows a database write); announcing a skipped seed leaves a phantom index entry", 1)
	r.Rule("K4", "keys handed to a transaction are not written again: BadgerDB keeps the key slice of a pending Set / Delete until commit, so a []byte passed as key to a transaction write is never afterwards passed to a parameter through which the callee may write (a key builder reusing one scratch buffer for the delete key and the set key turns the pending delete into a delete of the new key)", 2)

	c13KeyPrivacy(r, rel)
	c12InitAnnounce(r, "K5", rel)
	// K1
	iro := resolveIdxRoles(p, rel)
	gk, gq := iro.getKey, iro.getQuery
	fc := methodNamed(p, rel, "IndexQuery", "FetchCollection")
	if gk == nil || gq == nil || fc == nil {
		r.Unres("K1", "getKey/getQuery/FetchCollection", "missing")
		return
	}
	sepOf := func(fn *ssa.Function, segs []segment) (colon, sep string) {
		for _, s := range segs {
			if strings.HasPrefix(s.what, "byte(") {
				v := strings.TrimSuffix(strings.TrimPrefix(s.what, "byte("), ")")
				if colon == "" {
					colon = v
				} else {
					sep = v
				}
			}
		}
		return
	}
	ok1, d1, s1, _ := layoutCheck(p, gk)
	r.Check(ok1, "K1", core.FuncName(gk), "buffer-exactly-filled", p.Pos(gk.Pos()), d1, "index key buffer is not exactly filled for every input length: "+d1)
	ok2, d2, s2, _ := layoutCheck(p, gq)
	r.Check(ok2, "K1", core.FuncName(gq), "buffer-exactly-filled", p.Pos(gq.Pos()), d2, "query prefix buffer is not exactly filled for every input length: "+d2)
	c1, sep1 := sepOf(gk, s1)
	c2, _ := sepOf(gq, s2)
	r.Check(c1 != "" && c1 == c2, "K1", "Index", "writer-and-prefix-share-':'", "-", "both use "+c1+" after the name", "getKey uses "+c1+" but getQuery uses "+c2+" after the index name")
	// layout order of getKey: name, ':', key, sep, id  and getQuery is a prefix of it
	shape := func(segs []segment) string {
		var w []string
		for _, s := range segs {
			w = append(w, s.what)
		}
		return strings.Join(w, ",")
	}
	if ok1 && ok2 {
		sh1, sh2 := shape(s1), shape(s2)
		pre := strings.Split(sh2, ",")
		full := strings.Split(sh1, ",")
		good := len(full) == 5 && len(pre) == 3 && pre[0] == full[0] && pre[1] == full[1]
		r.Check(good, "K1", "Index", "query-prefix-is-a-prefix-of-key-layout", "-", "key = "+sh1+" ; query = "+sh2, "layouts disagree: key = "+sh1+" ; query = "+sh2)
	}
	// reader
	var lastIdx ssa.CallInstruction
	for _, f2 := range p.Scope(fc) {
		for _, c := range core.Calls(f2) {
			if cal := c.Common().StaticCallee(); cal != nil && cal.String() == "bytes.LastIndexByte" {
				lastIdx = c
			}
		}
	}
	if lastIdx == nil {
		r.Bad("K1", core.FuncName(fc), "reader-splits-at-last-separator", p.Pos(fc.Pos()), "the reader does not split index keys at the last separator")
	} else {
		r.Check("const:"+lastIdx.Common().Args[1].String() == sep1 || valDesc(lastIdx.Common().Args[1]) == sep1, "K1", core.FuncName(fc), "reader-separator==writer-separator", p.InstrPos(lastIdx), "both use "+sep1, "reader splits at "+valDesc(lastIdx.Common().Args[1])+" but the writer separates with "+sep1)
	}
	// namelen = len(Name)+1
	nameLenOK := false
	for _, f2 := range p.Scope(fc) {
		for _, b := range f2.Blocks {
			for _, in := range b.Instrs {
				if bo, ok := in.(*ssa.BinOp); ok && bo.Op == token.ADD {
					if c, ok := core.ConstInt(bo.Y); ok && c == 1 {
						if cl, ok := bo.X.(*ssa.Call); ok && core.CalleeName(cl) == "builtin:len" {
							if f, ok := core.LoadedField(cl.Call.Args[0]); ok && f.Name == "Name" {
								nameLenOK = true
							}
						}
					}
				}
			}
		}
	}
	r.Check(nameLenOK, "K1", core.FuncName(fc), "reader-strips-len(name)+1", p.Pos(fc.Pos()), "filter keys start after name and ':'", "the reader does not strip exactly len(name)+1 bytes before the key")

	c11CacheCoherence(r, "B1", rel)
	c13AllIndexes(r, "K6", rel)
	c11FanoutAfterCommit(r, "K7", rel)
	// K2 / Q1 in querystore
	ui, hc := iro.updateIndex, iro.handleChange
	if ui == nil || hc == nil {
		r.Unres("K2", "updateIndex/handleChange", "missing")
		return
	}
	for _, f2 := range append([]*ssa.Function{ui}, txnUnit(p, ui)...) {
		for _, c := range core.Calls(f2) {
			if !isBadgerCall(c, "Txn", "Set") {
				continue
			}
			// key built by getKey(rname, K): K must be known non-nil. The Set may sit in a private
			// helper that is handed the built key: then every call site of the helper is judged.
			type site struct {
				key ssa.Value
				at  ssa.Instruction
			}
			sites := []site{{c.Common().Args[1], c}}
			if prm, isPrm := c.Common().Args[1].(*ssa.Parameter); isPrm && p.IsPrivateHelper(f2) {
				sites = nil
				pi := -1
				for i, q := range f2.Params {
					if q == prm {
						pi = i
					}
				}
				for _, cs := range p.CallersOf(f2) {
					if pi >= 0 && pi < len(cs.Common().Args) {
						sites = append(sites, site{cs.Common().Args[pi], cs})
					}
				}
			}
			nn := len(sites) > 0
			for _, st := range sites {
				kc, ok := st.key.(*ssa.Call)
				var keyVal ssa.Value
				if ok && kc.Common().StaticCallee() == gk {
					keyVal = kc.Common().Args[2]
				}
				one := c13KeyNonNilAt(p, keyVal, st.at, 0)
				if !one {
					nn = false
				}
			}
			r.Check(nn, "K2", core.FuncName(f2), "index-Set-dominated-by-key!=nil", p.InstrPos(c), "an index entry is written only for a non-nil key", "an index entry can be written for a nil key")
		}
	}
	rbk := methodNamed(p, rel, "QueryStore", "RebuildIndexes")
	if rbk != nil {
		rbFns := withAnon(rbk)
		for _, c := range core.Calls(rbk) {
			if isBadgerCall(c, "DB", "Update") {
				if cl := closureArg(c); cl != nil && cl.Parent() == nil {
					rbFns = append(rbFns, withAnon(cl)...)
				}
			}
		}
		// per-index steps may live in private helpers of the scan
		{
			seen := map[*ssa.Function]bool{}
			for _, f2 := range rbFns {
				seen[f2] = true
			}
			for i := 0; i < len(rbFns); i++ {
				for _, h := range p.Helpers(rbFns[i]) {
					if !seen[h] {
						seen[h] = true
						rbFns = append(rbFns, h)
					}
				}
			}
		}
		for _, f2 := range rbFns {
			for _, c := range core.Calls(f2) {
				if isBadgerCall(c, "Txn", "Set") {
					nn := false
					edges := dominatingEdges(c)
					if p.IsPrivateHelper(f2) { // a per-entry helper: the test sits at its call sites
						cs := p.CallersOf(f2)
						all := len(cs) > 0
						var more []edgeCond
						for _, site := range cs {
							ok := false
							for _, ed := range dominatingEdges(site) {
								d := describeCond(ed)
								if strings.HasSuffix(d, "!=nil") && !strings.Contains(d, "extract") {
									ok = true
									more = append(more, ed)
								}
							}
							if !ok {
								all = false
							}
						}
						if all {
							edges = append(edges, more...)
						}
					}
					for _, ed := range edges {
						d := describeCond(ed)
						if strings.HasSuffix(d, "!=nil") && !strings.Contains(d, "extract") {
							nn = true
						}
					}
					r.Check(nn, "K2", core.FuncName(f2), "rebuild-Set-dominated-by-key!=nil", p.InstrPos(c), "rebuild skips nil keys", "rebuild indexes nil keys")
				}
			}
		}
	}
	// K3: index maintenance keeps nil ("not indexed") apart from an empty key
	for _, f2 := range txnUnit(p, ui) {
		if isKeyPredicateHelper(f2) {
			continue // a pure predicate over two keys is evaluated at its call sites
		}
		c, g, bn, _ := equalGuards(f2)
		if c == 0 {
			continue
		}
		r.Check(g == c && bn, "K3", core.FuncName(f2), "maintenance-skips-only-truly-unchanged-keys", p.Pos(f2.Pos()), "keys are compared with bytes.Equal only when both are non-nil; both-nil is tested separately",
			fmt.Sprintf("index maintenance treats a nil key and an empty key as equal (Equal guarded by non-nil tests %d of %d, both-nil test=%v): a value whose key becomes (or stops being) the empty key is not (un)indexed, so queries miss it or keep returning a deleted id", g, c, bn))
	}
	// Q1
	queuedTaskRule(r, "Q1", ui, "index maintenance runs inside the task handed to the FIFO queue", "index maintenance runs outside the task queue (Flush would not wait for it / updates could reorder)")
	ctor := p.Func(rel + ".NewQueryStore")
	regOK := false
	if ctor != nil {
		for _, c := range core.Calls(ctor) {
			if cal := c.Common().StaticCallee(); cal != nil && cal.Name() == "OnChange" {
				if mc, ok := c.Common().Args[1].(*ssa.MakeClosure); ok {
					if f, ok := mc.Fn.(*ssa.Function); ok && strings.HasPrefix(f.Name(), "handleChange") {
						regOK = true
					}
				}
			}
		}
	}
	r.Check(regOK, "Q1", rel+".NewQueryStore", "change-handler-registered-on-store", "-", "every store mutation reaches the index through OnChange", "the constructor does not register the change handler on the store")
	fl := methodNamed(p, rel, "QueryStore", "Flush")
	flOK := false
	if fl != nil {
		for _, c := range core.Calls(fl) {
			if cal := c.Common().StaticCallee(); cal != nil && strings.HasSuffix(cal.String(), "taskqueue.TaskQueue).Flush") {
				flOK = true
			}
		}
	}
	r.Check(flOK, "Q1", rel+".(*QueryStore).Flush", "awaits-the-task-queue", "-", "Flush waits for the queue that runs index maintenance", "Flush does not wait for the task queue")

	// D1
	for _, f2 := range withAnon(fc) {
		var seek, valid ssa.CallInstruction
		for _, c := range core.Calls(f2) {
			if isBadgerCall(c, "Iterator", "Seek") {
				seek = c
			}
			if isBadgerCall(c, "Iterator", "ValidForPrefix") {
				valid = c
			}
		}
		if seek == nil || valid == nil {
			continue
		}
		mayReverse := false
		for _, b := range f2.Blocks {
			for _, in := range b.Instrs {
				if st, ok := in.(*ssa.Store); ok {
					if f, ok := core.FieldOf(st.Addr); ok && f.Name == "Reverse" && strings.HasSuffix(f.Struct, "IteratorOptions") && !isConstBool(st.Val, false) {
						mayReverse = true
					}
				}
			}
		}
		if !mayReverse {
			r.OKTrivial("D1", core.FuncName(f2), "forward-only-iterator", p.InstrPos(seek), "Reverse is never set")
			continue
		}
		same := sameVariable(seek.Common().Args[1], valid.Common().Args[1])
		r.Check(!same, "D1", core.FuncName(f2), "reverse-capable-iterator:Seek-key!=ValidForPrefix-key", p.InstrPos(seek), "the seek key is direction-dependent (differs from the bare prefix)", "a possibly reversed iterator is positioned with Seek(prefix) and tested with ValidForPrefix(prefix): in reverse mode Seek lands before every key that extends the prefix, so the query returns nothing")
		// the reverse seek key is the prefix *extended* by the largest byte: every value the key
		// can take other than the prefix itself is append(<copy of the prefix>, 0xFF). Byte arithmetic
		// on the prefix (prefix[len-1]++) wraps for a prefix ending in 0xFF and lands before the range.
		if !same {
			why := ""
			nExt := 0
			for _, lf := range valueLeaves(seek.Common().Args[1], nil, 0) {
				v := core.Strip(lf.V)
				if sameVariable(v, valid.Common().Args[1]) {
					continue
				}
				if _, isPrm := v.(*ssa.Parameter); isPrm {
					continue // the prefix as a helper sees it
				}
				call, ok := v.(*ssa.Call)
				if ok && core.CalleeName(call) == "builtin:append" && len(call.Call.Args) == 2 {
					if k, isK := core.ConstInt(elemOfVarargs(call.Call.Args[1])); isK && k == 0xFF {
						nExt++
						continue
					}
				}
				why = valDesc(lf.V)
			}
			// ... and nothing stores into an element of a byte slice in the scan (the key is built, not patched)
			keyVals := map[ssa.Value]bool{}
			for _, lf := range valueLeaves(seek.Common().Args[1], nil, 0) {
				keyVals[core.Strip(lf.V)] = true
			}
			for _, g := range p.Helpers(f2) {
				for _, b := range g.Blocks {
					for _, in := range b.Instrs {
						if st, ok := in.(*ssa.Store); ok {
							if ia, ok := st.Addr.(*ssa.IndexAddr); ok && isByteSlice(ia.X.Type()) {
								for _, src := range phiSources(ia.X) {
									if keyVals[core.Strip(src.V)] {
										why = "element store into the key at " + p.InstrPos(st)
									}
								}
							}
						}
					}
				}
			}
			r.Check(why == "" && nExt > 0, "D1", core.FuncName(f2), "reverse-seek-key=prefix+0xFF", p.InstrPos(seek), "in reverse the scan starts at the prefix extended by 0xFF", "the reverse seek key is not the prefix extended by 0xFF ("+why+"): computed by byte arithmetic on the prefix it wraps around for a prefix that ends in 0xFF and the reverse query returns nothing although the forward query finds the values")
		}
	}

	// W1
	var view ssa.CallInstruction
	for _, c := range core.Calls(fc) {
		if isBadgerCall(c, "DB", "View") {
			view = c
		}
	}
	if view != nil {
		g0 := false
		for _, ed := range dominatingEdges(view) {
			// the variable initialised from the query's Limit field (or the field itself) is known non-zero
			ci := core.Cond(ed.If.Cond)
			if ci.Kind != "constcmp" || ci.Const == nil || ci.Const.ExactString() != "0" {
				continue
			}
			truth := ed.Succ == 0
			if ci.Negate {
				truth = !truth
			}
			if (ci.Op == token.NEQ) != truth {
				continue
			}
			if derivesFromField(ci.X, "IndexQuery", "Limit") {
				g0 = true
			}
			if f, ok := core.LoadedField(ci.X); ok && c13ScanStateFields(p)[f] == "limit" {
				g0 = true // the limit kept in a member of the scan's window struct
			}
		}
		r.Check(g0, "W1", core.FuncName(fc), "limit==0-returns-before-View", p.InstrPos(view), "a zero limit never touches the database", "limit 0 is not short-circuited")
	}
	negOK := c13NegativeLimitIsUnlimited(fc)
	// the "unlimited" sentinel is max-int: the limit may be counted down and compared, never added to
	{
		bad := ""
		for _, f2 := range withAnon(fc) {
			for _, b := range f2.Blocks {
				for _, in := range b.Instrs {
					bo, ok := in.(*ssa.BinOp)
					if !ok || bo.Op != token.ADD {
						continue
					}
					for _, op := range []ssa.Value{bo.X, bo.Y} {
						if derivesFromField(op, "IndexQuery", "Limit") {
							bad = p.InstrPos(bo)
						}
					}
				}
			}
		}
		r.Check(bad == "", "W1", core.FuncName(fc), "limit-never-added-to", p.Pos(fc.Pos()), "the limit (max-int when unlimited) is only decremented and compared", "the limit variable, which holds max-int for an unlimited query, is an operand of an addition at "+bad+": offset+limit overflows to a negative window end and an unlimited query with an offset returns a single id")
	}
	r.Check(negOK, "W1", core.FuncName(fc), "negative-limit->max-int", p.Pos(fc.Pos()), "negative limit means unlimited", "a negative limit is not mapped to max-int")
	c13WindowAfterFilter(r, "W2", fc)
	// the query object is the caller's: the scan counts its window down in locals, it never writes
	// a member of the IndexQuery (a query value that is cached, kept in a package variable or used
	// to page would come back with its offset already consumed)
	{
		bad := ""
		for _, h := range p.Helpers(fc) {
			for _, f2 := range withAnon(h) {
				for _, in := range instrsOf(f2) {
					if st, ok := in.(*ssa.Store); ok {
						if f, ok := core.FieldOf(st.Addr); ok && strings.HasSuffix(f.Struct, "IndexQuery") {
							bad = f.String() + " at " + p.InstrPos(st)
						}
					}
				}
			}
		}
		r.Check(bad == "", "W1", core.FuncName(fc), "query-object-not-written", p.Pos(fc.Pos()), "the scan stores into no member of the IndexQuery", "the scan writes the caller's IndexQuery ("+bad+"): the first fetch is right, every later fetch with the same query value returns a window cut with what the earlier one left of offset / limit")
	}
}

// c13WindowAfterFilter (typestate per iteration of the index scan): the offset
// is counted down, the limit is counted down and an id is appended only for an
// entry that passed the key filter (or when no filter is set). State 0 = the
// current entry has not been filtered yet (set by every iterator step), 1 =
// filter absent or passed.
func c13WindowAfterFilter(r *core.Run, rule string, fc *ssa.Function) {
	p := r.P
	nFilter, nOps := 0, 0
	for _, f2 := range withAnon(fc) {
		// the filter value: the query's FilterKeys field, a copy of it, or the parameter of a
		// private helper that every caller hands such a value
		stateFields := c13ScanStateFields(p)
		isFilter := func(v ssa.Value) bool {
			for _, a := range paramArgs(p, v, 0) {
				if f, ok := core.LoadedField(a); ok && stateFields[f] == "filter" {
					continue // the filter kept in a member of the scan's matcher struct
				}
				if !derivesFromField(a, "IndexQuery", "FilterKeys") {
					return false
				}
			}
			return true
		}
		isFilterCall := func(v ssa.Value) bool {
			c, ok := v.(*ssa.Call)
			return ok && core.IsDynamic(c) && !c.Common().IsInvoke() && isFilter(c.Common().Value)
		}
		// acceptor: a private helper that answers with the filter's own verdict - every result is the
		// filter call itself, the constant false, or the constant true on the edge where no filter is set
		isAcceptor := func(cal *ssa.Function) bool {
			if cal == nil || !p.IsPrivateHelper(cal) || cal.Signature.Results().Len() != 1 {
				return false
			}
			nCall := 0
			for _, ret := range core.Returns(cal) {
				for _, src := range phiSources(ret.Results[0]) {
					switch {
					case isFilterCall(src.V):
						nCall++
					case isConstBool(src.V, false):
					case isConstBool(src.V, true):
						onNil := false
						for _, ed := range dominatingEdges(ret) {
							ci := core.Cond(ed.If.Cond)
							if ci.Kind == "nilcmp" && isFilter(ci.X) {
								truth := ed.Succ == 0
								if ci.Negate {
									truth = !truth
								}
								if (ci.Op == token.EQL) == truth {
									onNil = true
								}
							}
						}
						if !onNil || src.Pred != nil {
							return false
						}
					default:
						return false
					}
				}
			}
			return nCall > 0
		}
		has := false
		for _, c := range helperCalls(p, f2) {
			if v, ok := c.(*ssa.Call); ok && isFilterCall(v) {
				has = true
				nFilter++
			}
		}
		if !has {
			continue
		}
		fl := &core.Flow{Fn: f2, Entry: core.StateSet(0).Add(0), Tags: true, Inline: func(cal *ssa.Function) bool { return p.IsPrivateHelper(cal) && cal.Pkg == f2.Pkg }}
		fl.Transfer = func(in ssa.Instruction, st int) core.StateSet {
			if c, ok := in.(ssa.CallInstruction); ok {
				if cal := c.Common().StaticCallee(); cal != nil && cal.Signature.Recv() != nil && core.TypeName(cal.Signature.Recv().Type()) == "Iterator" {
					switch cal.Name() {
					case "Next", "Seek", "Rewind":
						return core.StateSet(0).Add(0)
					}
				}
			}
			return core.StateSet(0).Add(st)
		}
		fl.Branch = func(iff *ssa.If, succ int, st int) (int, bool) {
			cnd, sc := iff.Cond, succ
			for {
				u, ok := cnd.(*ssa.UnOp)
				if !ok || u.Op != token.NOT {
					break
				}
				cnd, sc = u.X, 1-sc
			}
			if isFilterCall(cnd) {
				if sc == 0 {
					return 1, true
				}
				return 0, true
			}
			if ac, ok := cnd.(*ssa.Call); ok && isAcceptor(ac.Common().StaticCallee()) {
				if sc == 0 {
					return 1, true
				}
				return 0, true
			}
			if bo, ok := cnd.(*ssa.BinOp); ok && (bo.Op == token.EQL || bo.Op == token.NEQ) {
				x, y := bo.X, bo.Y
				if c, isC := x.(*ssa.Const); isC && c.IsNil() {
					x, y = y, x
				}
				if c, isC := y.(*ssa.Const); isC && c.IsNil() && isFilter(x) {
					isNil := (bo.Op == token.EQL) == (sc == 0)
					if isNil {
						return 1, true
					}
				}
			}
			return st, true
		}
		res := fl.Run()
		// the window counters may be kept in a small struct (window{skip: iq.Offset, remaining: limit})
		// and counted down by its methods: a field is a window counter when it is initialised from the
		// query's offset / limit
		counterField := c13ScanStateFields(p)
		var scope []*ssa.Function
		for _, h := range p.Helpers(f2) {
			scope = append(scope, h)
		}
		for _, h := range scope {
			for _, b := range h.Blocks {
				for _, in := range b.Instrs {
					what := ""
					switch x := in.(type) {
					case *ssa.BinOp:
						if k, ok := core.ConstInt(x.Y); ok && k == 1 && x.Op == token.SUB {
							if derivesFromField(x.X, "IndexQuery", "Offset") {
								what = "offset-counted-down"
							} else if derivesFromField(x.X, "IndexQuery", "Limit") {
								what = "limit-counted-down"
							} else if f, ok := core.LoadedField(x.X); ok && counterField[f] != "" {
								what = counterField[f] + "-counted-down"
							}
						}
					case *ssa.Call:
						if core.CalleeName(x) == "builtin:append" && types.TypeString(x.Type(), nil) == "[]string" {
							what = "id-appended"
						}
					}
					if what == "" {
						continue
					}
					nOps++
					st := res.Before[in]
					r.Check(st.Empty() || st.Only(1), rule, core.FuncName(f2), what+"-only-for-an-entry-that-passed-the-filter", p.InstrPos(in), "reached only after the key filter accepted the entry (or no filter is set)", "an index entry the key filter has not (yet) accepted is counted against the window here: the offset then skips, or the limit counts, entries that are not part of the filtered result, so pages of a filtered query overlap or come short")
				}
			}
		}
	}
	if nFilter == 0 || nOps == 0 {
		r.Bad(rule, core.FuncName(fc), "filter-and-window-found", p.Pos(fc.Pos()), fmt.Sprintf("filter calls=%d window operations=%d in the index scan (rule went vacuous)", nFilter, nOps))
	}
}

// ---- C14 -------------------------------------------------------------------------

// equalGuard describes how a bytes.Equal(x,y) call on index keys is guarded.
func equalGuards(fn *ssa.Function) (calls int, guardedBoth int, bothNilTest bool, pos string) {
	// the predicate may live in a pure helper: evaluate it on every nil/equal combination
	for _, c := range keyPredicateCalls(fn) {
		cal := c.Common().StaticCallee()
		if cal.String() == "bytes.Equal" {
			continue
		}
		calls++
		pos = fmt.Sprint(c.Pos())
		tbl, eqOnNil, ok := evalKeyPredicate(cal)
		if !ok {
			continue
		}
		exact := true
		for _, xn := range []bool{false, true} {
			for _, yn := range []bool{false, true} {
				for _, eq := range []bool{false, true} {
					want := (xn && yn) || (!xn && !yn && eq)
					if tbl[[3]bool{xn, yn, eq}] != want {
						exact = false
					}
				}
			}
		}
		if !eqOnNil && exact {
			guardedBoth++
		}
		if tbl[[3]bool{true, true, false}] && tbl[[3]bool{true, true, true}] {
			bothNilTest = true
		}
	}
	for _, c := range core.Calls(fn) {
		cal := c.Common().StaticCallee()
		if cal == nil || cal.String() != "bytes.Equal" {
			continue
		}
		calls++
		x, y := c.Common().Args[0], c.Common().Args[1]
		gx, gy := false, false
		for _, ed := range dominatingEdges(c) {
			ci := core.Cond(ed.If.Cond)
			if ci.Kind != "nilcmp" {
				continue
			}
			truth := ed.Succ == 0
			if ci.Negate {
				truth = !truth
			}
			nonNil := (ci.Op == token.NEQ) == truth
			if nonNil && ci.X == x {
				gx = true
			}
			if nonNil && ci.X == y {
				gy = true
			}
		}
		if gx && gy {
			guardedBoth++
		}
		pos = fmt.Sprint(c.Pos())
		// both-nil test: an If x==nil whose true edge leads to an If y==nil
		for _, b := range fn.Blocks {
			iff, ok := b.Instrs[len(b.Instrs)-1].(*ssa.If)
			if !ok {
				continue
			}
			ci := core.Cond(iff.Cond)
			if ci.Kind == "nilcmp" && ci.X == x && ci.Op == token.EQL {
				nb := b.Succs[0]
				if i2, ok := nb.Instrs[len(nb.Instrs)-1].(*ssa.If); ok {
					c2 := core.Cond(i2.Cond)
					if c2.Kind == "nilcmp" && c2.X == y && c2.Op == token.EQL {
						bothNilTest = true
					}
				}
			}
		}
	}
	return
}

func c14(r *core.Run) {
	p := r.P
	rel := "store/badgerstore"
	r.Explanation = "Must-pass-through and sibling agreement for query-change notification: the fan-out to OnQueryChange callbacks is dominated by the success edge of the index transaction, by 'no per-key error' and by the 'some key changed' flag, whose only store of true lies behind the changed-key edge; the unchanged-key predicate keeps nil ('not indexed') distinguishable from an empty key (bytes.Equal is evaluated only under both-non-nil, and both-nil is tested separately) and has the same shape in index maintenance and in affectsQuery; affectsQuery answers wasMatch||isMatch; the query handler turns a reset flag into a reset event / fresh result and dispatches the same event names in both places. Decides notification structure; soundness of affected-ness for arbitrary key functions is not decided."
	r.NotDecided = []string{"soundness of 'affected' for arbitrary key functions, filters and windows", "per-id mutation order across the task queue (third party)"}
	r.Assumptions = []string{"DB.Update nil result means the index transaction committed"}

	r.Rule("N1", "notify after commit, only on change: the query-change fan-out is dominated by the index transaction's err==nil edge, the empty-error-message edge and the updated flag; the flag is set true only where a key changed", 2)
	r.Rule("N2", "unchanged-key predicate: bytes.Equal on index keys is evaluated only when both keys are known non-nil, a both-nil test exists, and index maintenance and affectsQuery use the same predicate shape; affectsQuery returns wasMatch||isMatch", 4)
	r.Rule("B1", "before-values are the stored values (shared with C11.K2): the value cached in a store transaction is dead or refreshed by every mutation; the unchanged-key test and affectsQuery compare the reported before-value with the new one, so a stale before-value suppresses or misdirects notifications", 1)
	r.Rule("O1", "mutation order per id: index maintenance - which applies one id's key deltas and runs the query-change callbacks - is executed only as a task handed to the blocking FIFO TaskQueue.Do by the store's change handler (no direct call, TryDo fallback or goroutine that could let a later delta overtake an earlier one)", 1)
	r.Rule("N3", "query handler: a reset flag yields a reset event (resources) or a fresh result reply (query requests) and no per-event dispatch; both event dispatchers handle the same event names; errors are returned / replied", 3)

	r.Rule("V1", "every query request gets its own answer (shared with C15.C1 / C16.V1): no closure created in a loop and handed to the per-group queue captures a variable the loop re-assigns (the module's go directive gives loop variables one instance per loop); the listener of a query event would otherwise hand every pending request's closure the latest message", 1)
	r.Rule("N6", "the change is asked about the query the result is fetched with: in the query handler, wherever a request-handler callback translates the request into the store's query, QueryChange.Events receives that translated query (through phis), not the raw request query", 1)
	c14EventsGetTheStoreQuery(r, "N6")
	r.Rule("E1", "the events handed on reproduce the new result: a transformer that folds a result's remove / add events into one model change stores into the change map depending on the event alone (name, value type, loop) - never on what the map already holds; a store skipped for an id that is already in the map leaves the delete action of an earlier remove in place, and the client deletes an id a fresh get still returns", 1)
	c14EventsFoldedInOrder(r, "E1")
	r.Rule("N9", "what a query returns is what the change test assumes (shared with C13.K9): an index entry is returned only when the query prefix ends before the id separator - exactly, not \"up to one byte past it\" - because queryChange.affectsQuery tests the prefix against the bare key", 1)
	c13PrefixInsideKey(r, "N9", "store/badgerstore")
	r.Rule("N8", "the index entries written are the ones computed: BadgerDB keeps the key slices handed to Txn.Set / Txn.Delete until the commit, so every key a transaction of the query store writes is memory of its own - a key builder of the package returns a slice it made itself on every path, never (a re-slice of) a buffer it was handed: with a scratch buffer the key of the pending delete is overwritten by the key of the following set and the old entry is never removed", 1)
	c14KeysAreFreshSlices(r, "N8", "store/badgerstore")
	r.Rule("N7", "no mutation without its before-value (shared with C11.E3): in the transaction bodies of badgerstore's Update and Delete no database write is reachable on the edge where the read of the stored value reported an error - a delete that carries on with before == nil leaves the index entry of the old value in place and announces nothing", 2)
	c11ReadErrorAborts(r, "N7")
	r.Rule("N5", "an empty key is a key: a query is affected by a value whose index key is empty but not nil exactly like by any other value - 'the value does not exist / is not indexed' is decided by nil tests, never by the length of a key", 1)
	c13KeyPresenceByNil(r, "N5", rel)
	r.Rule("N4", "no query change without a mutation (shared with C12.I2): Init announces as created only the seeds it wrote; a seed skipped because its id already holds a value would otherwise run the query-change callbacks for a value that was never stored, index it next to the real one and report queries on the phantom key as affected", 1)

	ui := resolveIdxRoles(p, rel).updateIndex
	aq := methodNamed(p, rel, "queryChange", "affectsQuery")
	if ui == nil || aq == nil {
		r.Unres("N1", "updateIndex/affectsQuery", "missing")
		return
	}
	c11CacheCoherence(r, "B1", rel)
	c12InitAnnounce(r, "N4", rel)
	loopCaptureRule(r, "V1", "two query requests of one query event that are queued before the first runs are both handled with the later message: one client holding a query result gets two answers, the other none and keeps a stale result")
	queuedTaskRule(r, "O1", ui, "deltas and notifications of one id are applied in mutation order by the single FIFO worker", "index maintenance / query-change notification can run outside the FIFO task queue: a later mutation's delta and callbacks can overtake an earlier one of the same id (subscribers end with a stale result, the index keeps or loses entries)")
	// N1
	var upd ssa.CallInstruction
	for _, c := range core.Calls(ui) {
		if isBadgerCall(c, "DB", "Update") {
			upd = c
		}
	}
	var fan []ssa.CallInstruction
	for _, c := range core.Calls(ui) {
		if !core.IsDynamic(c) {
			continue
		}
		if u, ok := c.Common().Value.(*ssa.UnOp); ok {
			if ia, ok := u.X.(*ssa.IndexAddr); ok {
				if f, ok := core.LoadedField(ia.X); ok && f == listenerFieldOf(p, rel, "QueryStore", "OnQueryChange") {
					fan = append(fan, c)
				}
			}
		}
	}
	fanFns := fanoutFuncsOf(p, rel, "QueryStore", "OnQueryChange")
	for _, c := range core.Calls(ui) {
		if cal := c.Common().StaticCallee(); cal != nil && fanFns[cal] && cal != ui {
			fan = append(fan, c)
		}
	}
	if len(fan) == 0 || upd == nil {
		r.Bad("N1", core.FuncName(ui), "fan-out-exists", p.Pos(ui.Pos()), "no query-change fan-out / no index transaction in updateIndex")
	}
	for _, c := range fan {
		// what the callbacks receive describes this mutation for good: a value copy or a freshly
		// allocated object, never a pointer into the query store (handlers keep it for later Events calls)
		for _, a := range c.Common().Args {
			mi, ok := a.(*ssa.MakeInterface)
			if !ok {
				continue
			}
			if _, isPtr := mi.X.Type().Underlying().(*types.Pointer); !isPtr {
				r.OK("N1", core.FuncName(ui), "query-change-value-is-private-to-the-mutation", p.InstrPos(c), "the callbacks get a copy of the change value")
				continue
			}
			al, fresh := mi.X.(*ssa.Alloc)
			r.Check(fresh && al.Heap, "N1", core.FuncName(ui), "query-change-value-is-private-to-the-mutation", p.InstrPos(c), "the callbacks get a freshly allocated change object", "the query-change callbacks are handed a pointer to "+valDesc(mi.X)+", which the next index update overwrites: a query handler that answers its query event later (QueryChange.Events is called when the gateway's query requests arrive) describes a different mutation - affected queries are reported unaffected and vice versa")
		}
		okCommit, okMsg, okFlag := false, false, false
		for _, ed := range dominatingEdges(c) {
			d := describeCond(ed)
			ci := core.Cond(ed.If.Cond)
			if ci.Kind == "nilcmp" && upd != nil && ci.X == upd.Value() && strings.HasSuffix(d, "==nil") {
				okCommit = true
			}
			if strings.HasSuffix(d, `==""`) {
				okMsg = true
			}
			if ci.Kind == "other" || ci.Kind == "boolfield" {
				// the updated cell: a bool load from a local alloc
				if u, ok := ci.X.(*ssa.UnOp); ok {
					flagOK := false
					if al, ok := u.X.(*ssa.Alloc); ok && isChangedFlag(al) {
						flagOK = true
					}
					// the flag may be a bool field of a local struct whose method runs as the transaction body
					if fa, ok := u.X.(*ssa.FieldAddr); ok {
						if _, isLocal := fa.X.(*ssa.Alloc); isLocal {
							if ff, ok := core.FieldOf(fa); ok {
								for _, body := range txnBodies(ui) {
									for _, bb := range body.Blocks {
										for _, in2 := range bb.Instrs {
											if st2, ok := in2.(*ssa.Store); ok && isConstBool(st2.Val, true) {
												if g, ok := core.FieldOf(st2.Addr); ok && g == ff {
													flagOK = true
												}
											}
										}
									}
								}
							}
						}
					}
					if flagOK {
						truth := ed.Succ == 0
						if ci.Negate {
							truth = !truth
						}
						if truth {
							okFlag = true
						}
					}
				}
			}
		}
		r.Check(okCommit && okMsg && okFlag, "N1", core.FuncName(ui), "fan-out-after-commit-and-only-if-changed", p.InstrPos(c), "callbacks run only after the index transaction committed without per-key errors and some key changed", fmt.Sprintf("fan-out not properly guarded: afterCommit=%v noKeyErrors=%v changedFlag=%v", okCommit, okMsg, okFlag))
	}
	// the flag's true-store lies behind the changed-key edge (not reachable on the unchanged 'continue' path)
	// changedOn(f2, at): `at` (the flag store, or a `return true` of a per-index helper) follows an
	// index write and is not reachable from the unchanged-key outcome of the predicate
	mayWriteFn := mayExec(p.FuncsOfPkg(rel), func(in ssa.Instruction) bool {
		c, ok := in.(ssa.CallInstruction)
		return ok && isTxnWrite(c)
	})
	// writeLike: a transaction write, or a call of a helper that performs one
	writeLike := func(c ssa.CallInstruction) bool {
		if isTxnWrite(c) {
			return true
		}
		cal := c.Common().StaticCallee()
		return cal != nil && mayWriteFn[cal]
	}
	var changedOn func(f2 *ssa.Function, at ssa.Instruction) bool
	changedOn = func(f2 *ssa.Function, at ssa.Instruction) bool {
		follows := false
		for _, c := range core.Calls(f2) {
			if writeLike(c) && core.Reaches(c, at) {
				follows = true
			}
		}
		eqReaches := false
		for _, c := range keyPredicateCalls(f2) {
			if c.Value().Referrers() == nil {
				continue
			}
			for _, rf := range *c.Value().Referrers() {
				if iff, ok := rf.(*ssa.If); ok {
					if reachAvoiding(iff.Block().Succs[0], at.Block(), func(bb *ssa.BasicBlock) bool {
						for _, i2 := range bb.Instrs {
							if cc, ok := i2.(ssa.CallInstruction); ok && writeLike(cc) {
								return true
							}
						}
						return false
					}, rangeLoopHead(f2)) {
						eqReaches = true
					}
				}
			}
		}
		return follows && !eqReaches
	}
	for _, f2 := range txnBodies(ui) {
		for _, b := range f2.Blocks {
			for _, in := range b.Instrs {
				st, ok := in.(*ssa.Store)
				if !ok || !isConstBool(st.Val, true) {
					continue
				}
				// the flag is set from the bool result of a per-index helper: the helper must report
				// true only where it rewrote the entry
				viaHelper, helperOK := false, true
				for _, ed := range dominatingEdges(st) {
					cnd, succ := ed.Norm()
					var hc *ssa.Call
					idx := 0
					switch x := cnd.(type) {
					case *ssa.Call:
						hc = x
					case *ssa.Extract:
						if c, ok := x.Tuple.(*ssa.Call); ok {
							hc, idx = c, x.Index
						}
					}
					if hc == nil || succ != 0 {
						continue
					}
					cal := hc.Common().StaticCallee()
					if cal == nil || len(cal.Blocks) == 0 || cal.Pkg != f2.Pkg || len(keyPredicateCalls(cal)) == 0 {
						continue
					}
					viaHelper = true
					for _, ret := range core.Returns(cal) {
						if idx < len(ret.Results) && !isConstBool(ret.Results[idx], false) && !changedOn(cal, ret) {
							helperOK = false
						}
					}
				}
				if viaHelper {
					r.Check(helperOK, "N1", core.FuncName(f2), "updated=true-only-where-a-key-changed", p.InstrPos(st), "the changed flag is set only where the per-index helper reports a rewritten entry", "the changed flag can be set on the unchanged-key path: subscribers are notified for mutations that change no index key")
					continue
				}
				// dominated by the not-unchanged outcome: i.e. NOT reachable from the blocks where unchanged was concluded.
				// Concretely: the store must be dominated by at least one key!=nil edge or follow a Set/Delete.
				follows := false
				for _, c := range core.Calls(f2) {
					if writeLike(c) && core.Reaches(c, st) {
						follows = true
					}
				}
				// and the Equal==true edge must not reach it without passing the loop head
				eqReaches := false
				for _, c := range keyPredicateCalls(f2) {
					if c.Value().Referrers() != nil {
						for _, rf := range *c.Value().Referrers() {
							if iff, ok := rf.(*ssa.If); ok {
								tb := iff.Block().Succs[0]
								// reach st from tb without passing through a txn write
								if reachAvoiding(tb, st.Block(), func(bb *ssa.BasicBlock) bool {
									for _, i2 := range bb.Instrs {
										if cc, ok := i2.(ssa.CallInstruction); ok && writeLike(cc) {
											return true
										}
									}
									return false
								}, rangeLoopHead(f2)) {
									eqReaches = true
								}
								// the flag must not be set before the predicate is evaluated in the same iteration
								heads := rangeLoopHead(f2)
								delete(heads, st.Block())
								if st.Block() == iff.Block() || reachAvoiding(st.Block(), c.Block(), func(*ssa.BasicBlock) bool { return false }, heads) && st.Block() != c.Block() || (st.Block() == c.Block() && core.Dominates(st, c)) {
									eqReaches = true
								}
							}
						}
					}
				}
				r.Check(follows && !eqReaches, "N1", core.FuncName(f2), "updated=true-only-where-a-key-changed", p.InstrPos(st), "the changed flag is set only on the path that rewrites index entries", "the changed flag can be set on the unchanged-key path: subscribers are notified for mutations that change no index key")
			}
		}
	}
	// N2
	var uiCl *ssa.Function
	for _, f2 := range txnUnit(p, ui) {
		if len(keyPredicateCalls(f2)) > 0 && !isKeyPredicateHelper(f2) {
			uiCl = f2
		}
	}
	type sig struct {
		calls, guarded int
		bothNil        bool
	}
	sigs := map[string]sig{}
	for name, fn := range map[string]*ssa.Function{"updateIndex": uiCl, "affectsQuery": aq} {
		if fn == nil {
			r.Bad("N2", name, "has-unchanged-key-predicate", "-", "no bytes.Equal on index keys")
			continue
		}
		c, g, bn, _ := equalGuards(fn)
		sigs[name] = sig{c, g, bn}
		r.Check(c >= 1 && g == c && bn, "N2", core.FuncName(fn), "Equal-only-under-both-non-nil+both-nil-test", p.Pos(fn.Pos()), "nil (not indexed) and an empty key stay distinguishable", fmt.Sprintf("the unchanged-key predicate compares keys with bytes.Equal without first establishing both are non-nil (guarded %d of %d, both-nil test=%v): a transition between 'not indexed' (nil) and an empty key counts as unchanged, so the index is not updated and no subscriber is told", g, c, bn))
	}
	r.Check(sigs["updateIndex"] == sigs["affectsQuery"], "N2", "querystore", "predicate-shape-agrees(updateIndex,affectsQuery)", "-", "same shape in both places", fmt.Sprintf("the unchanged-key predicate differs: %+v vs %+v", sigs["updateIndex"], sigs["affectsQuery"]))
	// affectsQuery returns wasMatch || isMatch
	orOK := false
	for _, ret := range core.Returns(aq) {
		if phi, ok := ret.Results[0].(*ssa.Phi); ok && len(phi.Edges) == 2 {
			orOK = true
			_ = phi
		}
	}
	r.Check(orOK, "N2", core.FuncName(aq), "returns-wasMatch||isMatch", p.Pos(aq.Pos()), "affected iff the old or the new key matches", "affectsQuery does not return the disjunction of old-match and new-match")
	// "unaffected" is only ever concluded from the keys: a success return of the constant false lies
	// behind a test that depends on the index keys computed for the query's own index (the
	// unchanged-key predicate); an earlier shortcut (by index name, by a remembered "updated index")
	// hides a change from the queries of every other index it touched
	{
		var keys []ssa.Value
		for _, c := range core.Calls(aq) {
			if !core.IsDynamic(c) || c.Common().IsInvoke() || c.Value() == nil {
				continue
			}
			if f, ok := core.LoadedField(c.Common().Value); ok && strings.HasSuffix(f.Struct, "Index") && isByteSlice(c.Value().Type()) {
				keys = append(keys, c.Value())
			}
		}
		// ... or computed by a private helper that makes those calls (indexKeys(iq))
		isKeyCall := func(c ssa.CallInstruction) bool {
			if !core.IsDynamic(c) || c.Common().IsInvoke() || c.Value() == nil {
				return false
			}
			f, ok := core.LoadedField(c.Common().Value)
			return ok && strings.HasSuffix(f.Struct, "Index") && isByteSlice(c.Value().Type())
		}
		for _, c := range core.Calls(aq) {
			cal := c.Common().StaticCallee()
			if cal == nil || !p.IsPrivateHelper(cal) || c.Value() == nil {
				continue
			}
			for _, h := range p.Helpers(cal) {
				for _, c2 := range core.Calls(h) {
					if isKeyCall(c2) {
						keys = append(keys, c.Value())
					}
				}
			}
		}
		nFalse := 0
		for _, ret := range core.Returns(aq) {
			if len(ret.Results) != 2 || !isConstBool(ret.Results[0], false) {
				continue
			}
			if c, isC := ret.Results[1].(*ssa.Const); !isC || !c.IsNil() {
				continue
			}
			nFalse++
			// every branch that leads straight into the returning block tests the keys (the
			// predicate is a short-circuit expression: several exits, no single dominating edge)
			fromKeys := len(ret.Block().Preds) > 0
			for _, pb := range ret.Block().Preds {
				iff, isIf := pb.Instrs[len(pb.Instrs)-1].(*ssa.If)
				if !isIf {
					fromKeys = false
					continue
				}
				dep := false
				for _, k := range keys {
					if dependsOn(iff.Cond, k, 0) {
						dep = true
					}
				}
				if !dep {
					fromKeys = false
				}
			}
			var conds []string
			for _, ed := range dominatingEdges(ret) {
				conds = append(conds, describeCond(ed))
			}
			r.Check(fromKeys && len(keys) > 0, "N2", core.FuncName(aq), "unaffected-only-from-the-keys:"+returnDesc(ret, conds), p.InstrPos(ret), "the constant 'unaffected' answer follows a comparison of the index keys", "affectsQuery answers 'unaffected' on a path that has not looked at the index keys of the query's index: a mutation that changes keys in several indexes is then reported to the queries of one index only, the clients of the others keep a stale result")
		}
		_ = nFalse
	}

	// N3
	relS := "store"
	// role resolution: the method invoking ResetEvent on a resource, and the method starting a QueryEvent
	var re, qe *ssa.Function
	for _, m := range methodsOf(p, relS, "queryHandler") {
		for _, c := range core.Calls(m) {
			if c.Common().IsInvoke() {
				switch c.Common().Method.Name() {
				case "ResetEvent":
					re = m
				case "QueryEvent":
					qe = m
				}
			}
		}
	}
	if re == nil || qe == nil {
		r.Unres("N3", "queryHandler.resourceEvent/queryEvent", "missing")
		return
	}
	storeFns := p.FuncsOfPkg(relS)
	// closure of a function: itself, its closures and the same-package functions it (transitively) calls
	reach := func(root *ssa.Function) []*ssa.Function {
		seen := map[*ssa.Function]bool{}
		var out []*ssa.Function
		var walk func(f *ssa.Function, d int)
		walk = func(f *ssa.Function, d int) {
			if seen[f] || d > 4 || len(f.Blocks) == 0 {
				return
			}
			seen[f] = true
			out = append(out, f)
			for _, a := range f.AnonFuncs {
				walk(a, d+1)
			}
			for _, c := range core.Calls(f) {
				if cal := c.Common().StaticCallee(); cal != nil && cal.Pkg == root.Pkg {
					walk(cal, d+1)
				}
			}
		}
		walk(root, 0)
		return out
	}
	isNameCmp := func(in ssa.Instruction) bool {
		bo, ok := in.(*ssa.BinOp)
		if !ok || bo.Op != token.EQL {
			return false
		}
		f, ok := core.LoadedField(bo.X)
		if !ok || f.Name != "Name" {
			return false
		}
		_, ok = core.ConstString(bo.Y)
		return ok
	}
	// table form: the event name indexes a package-level map whose keys are the dispatched names
	// (filled by the package initialiser with constant keys only)
	tableNames := func(in ssa.Instruction) ([]string, bool) {
		lk, ok := in.(*ssa.Lookup)
		if !ok {
			return nil, false
		}
		if f, ok := core.LoadedField(lk.Index); !ok || f.Name != "Name" {
			return nil, false
		}
		ld, ok := lk.X.(*ssa.UnOp)
		if !ok {
			return nil, false
		}
		g, ok := ld.X.(*ssa.Global)
		if !ok || g.Pkg == nil {
			return nil, false
		}
		init := g.Pkg.Func("init")
		if init == nil {
			return nil, false
		}
		var out []string
		for _, b := range init.Blocks {
			for _, ii := range b.Instrs {
				mu, ok := ii.(*ssa.MapUpdate)
				if !ok || mu.Map.Referrers() == nil {
					continue
				}
				toG := false
				for _, rf := range *mu.Map.Referrers() {
					if st, ok := rf.(*ssa.Store); ok && st.Addr == ssa.Value(g) && st.Val == mu.Map {
						toG = true
					}
				}
				if !toG {
					continue
				}
				k, isC := core.ConstString(mu.Key)
				if !isC {
					return nil, false
				}
				out = append(out, k)
			}
		}
		// nothing else writes the table
		for _, fn := range storeFns {
			for _, b := range fn.Blocks {
				for _, ii := range b.Instrs {
					if mu, ok := ii.(*ssa.MapUpdate); ok && fn != init {
						if u, ok := mu.Map.(*ssa.UnOp); ok && u.X == ssa.Value(g) {
							return nil, false
						}
					}
				}
			}
		}
		return out, len(out) > 0
	}
	isNameDispatch := func(in ssa.Instruction) bool {
		if isNameCmp(in) {
			return true
		}
		_, ok := tableNames(in)
		return ok
	}
	mayDispatch := mayExec(storeFns, isNameDispatch)
	names := func(fns []*ssa.Function) string {
		set := map[string]bool{}
		for _, fn := range fns {
			for _, b := range fn.Blocks {
				for _, in := range b.Instrs {
					if isNameCmp(in) {
						s, _ := core.ConstString(in.(*ssa.BinOp).Y)
						set[s] = true
					}
					if ks, ok := tableNames(in); ok {
						for _, k := range ks {
							set[k] = true
						}
					}
				}
			}
		}
		return strings.Join(core.SortedKeys(set), ",")
	}
	n1, n2 := names(reach(re)), names(reach(qe))
	r.Check(n1 == n2 && n1 != "", "N3", "store.queryHandler", "event-names-agree(resourceEvent,queryEvent)", "-", "both dispatch {"+n1+"}", "resourceEvent dispatches {"+n1+"} but queryEvent dispatches {"+n2+"}")
	// reset edge
	chkReset := func(rootFn *ssa.Function, wantCall []string, what string) {
		found := false
		for _, fn := range reach(rootFn) {
			mayWant := mayExec(storeFns, func(in ssa.Instruction) bool {
				cc, ok := in.(ssa.CallInstruction)
				if !ok {
					return false
				}
				nm := ""
				if cc.Common().IsInvoke() {
					nm = cc.Common().Method.Name()
				} else if cal := cc.Common().StaticCallee(); cal != nil {
					nm = cal.Name()
				}
				for _, w := range wantCall {
					if nm == w {
						return true
					}
				}
				return false
			})
			for _, b := range fn.Blocks {
				iff, ok := b.Instrs[len(b.Instrs)-1].(*ssa.If)
				if !ok {
					continue
				}
				isResetFlag := func(v ssa.Value) bool {
					ex, ok := v.(*ssa.Extract)
					if !ok || ex.Index != 1 {
						return false
					}
					c, ok := ex.Tuple.(*ssa.Call)
					return ok && c.Common().IsInvoke() && c.Common().Method.Name() == "Events"
				}
				if !isResetFlag(iff.Cond) {
					// ... or the answer of a classifier helper handed the flag: the constant it returns
					// exactly on the flag's true edge (switch classifyChange(evs, reset) { case outcomeReset: ...)
					bo, ok := iff.Cond.(*ssa.BinOp)
					if !ok || bo.Op != token.EQL {
						continue
					}
					call, ok := bo.X.(*ssa.Call)
					k, isK := bo.Y.(*ssa.Const)
					if !ok || !isK || k.Value == nil {
						continue
					}
					cal := call.Common().StaticCallee()
					if cal == nil || len(cal.Blocks) == 0 || cal.Pkg != fn.Pkg || cal.Signature.Results().Len() != 1 {
						continue
					}
					var flagPrm *ssa.Parameter
					for i, a := range call.Common().Args {
						if isResetFlag(a) && i < len(cal.Params) {
							flagPrm = cal.Params[i]
						}
					}
					if flagPrm == nil {
						continue
					}
					onFlag, others := 0, 0
					for _, ret := range core.Returns(cal) {
						for _, src := range phiSources(ret.Results[0]) {
							c, isC := src.V.(*ssa.Const)
							if !isC || c.Value == nil || c.Value.Kind() != k.Value.Kind() || !constant.Compare(c.Value, token.EQL, k.Value) {
								continue
							}
							behindFlag := false
							for _, ed := range srcEdges(ret, src) {
								cnd, succ := ed.Norm()
								if cnd == ssa.Value(flagPrm) && succ == 0 {
									behindFlag = true
								}
							}
							if behindFlag {
								onFlag++
							} else {
								others++
							}
						}
					}
					if onFlag == 0 || others > 0 {
						continue
					}
				}
				found = true
				tb := b.Succs[0]
				reachW, dispatch := false, false
				seen := map[*ssa.BasicBlock]bool{}
				st := []*ssa.BasicBlock{tb}
				for len(st) > 0 {
					x := st[len(st)-1]
					st = st[:len(st)-1]
					if seen[x] {
						continue
					}
					seen[x] = true
					for _, in := range x.Instrs {
						if cc, ok := in.(ssa.CallInstruction); ok {
							nm := ""
							if cc.Common().IsInvoke() {
								nm = cc.Common().Method.Name()
							} else if cal := cc.Common().StaticCallee(); cal != nil {
								nm = cal.Name()
								if mayWant[cal] {
									reachW = true
								}
								if mayDispatch[cal] {
									dispatch = true
								}
							}
							for _, w := range wantCall {
								if nm == w {
									reachW = true
								}
							}
						}
						if isNameCmp(in) {
							dispatch = true
						}
					}
					st = append(st, x.Succs...)
				}
				r.Check(reachW && !dispatch, "N3", core.FuncName(rootFn), "reset-edge->"+what, p.InstrPos(iff), "a reset flag is honoured and no partial events are emitted", fmt.Sprintf("reset flag mishandled: reaches-%s=%v dispatches-events=%v", what, reachW, dispatch))
			}
		}
		if !found {
			r.Bad("N3", core.FuncName(rootFn), "tests-reset-flag", p.Pos(rootFn.Pos()), "the reset result of QueryChange.Events is ignored")
		}
	}
	chkReset(re, []string{"ResetEvent"}, "reset-event")
	chkReset(qe, []string{"getResult", "Query"}, "fresh-result")
}

// rangeLoopHead returns the blocks that are loop heads (targets of back edges).
func rangeLoopHead(fn *ssa.Function) map[*ssa.BasicBlock]bool {
	out := map[*ssa.BasicBlock]bool{}
	for _, b := range fn.Blocks {
		for _, s := range b.Succs {
			if s.Dominates(b) || s == b {
				out[s] = true
			}
		}
	}
	return out
}

// reachAvoiding: is target reachable from start without entering a block for
// which stop(b) holds or a block in barrier?
func reachAvoiding(start, target *ssa.BasicBlock, stop func(*ssa.BasicBlock) bool, barrier map[*ssa.BasicBlock]bool) bool {
	seen := map[*ssa.BasicBlock]bool{}
	st := []*ssa.BasicBlock{start}
	for len(st) > 0 {
		x := st[len(st)-1]
		st = st[:len(st)-1]
		if seen[x] || barrier[x] {
			continue
		}
		seen[x] = true
		if x == target {
			return true
		}
		if stop(x) {
			continue
		}
		st = append(st, x.Succs...)
	}
	return false
}

// sameVariable: a and b are the same SSA value, or loads of the same variable
// cell (local or captured) that is never re-assigned in the function.
func sameVariable(a, b ssa.Value) bool {
	if a == b {
		return true
	}
	ua, ok1 := a.(*ssa.UnOp)
	ub, ok2 := b.(*ssa.UnOp)
	if !ok1 || !ok2 || ua.Op != token.MUL || ub.Op != token.MUL || ua.X != ub.X {
		return false
	}
	switch ua.X.(type) {
	case *ssa.FreeVar, *ssa.Alloc:
	default:
		return false
	}
	for _, blk := range ua.Parent().Blocks {
		for _, in := range blk.Instrs {
			if st, ok := in.(*ssa.Store); ok && st.Addr == ua.X {
				return false
			}
		}
	}
	return true
}

// keyPredicateCalls lists the calls in fn that decide whether two index keys
// are the same: bytes.Equal itself, or a module helper (bool result, two
// []byte parameters) that evaluates bytes.Equal.
func keyPredicateCalls(fn *ssa.Function) []ssa.CallInstruction {
	var out []ssa.CallInstruction
	for _, c := range core.Calls(fn) {
		cal := c.Common().StaticCallee()
		if cal == nil {
			continue
		}
		if cal.String() == "bytes.Equal" {
			out = append(out, c)
			continue
		}
		if len(cal.Blocks) == 0 || cal.Pkg != core.Outermost(fn).Pkg || cal.Signature.Results().Len() != 1 || types.TypeString(cal.Signature.Results().At(0).Type(), nil) != "bool" {
			continue
		}
		nb := 0
		for _, prm := range cal.Params {
			if types.TypeString(prm.Type(), nil) == "[]byte" {
				nb++
			}
		}
		if nb != 2 {
			continue
		}
		for _, c2 := range core.Calls(cal) {
			if k := c2.Common().StaticCallee(); k != nil && k.String() == "bytes.Equal" {
				out = append(out, c)
				break
			}
		}
	}
	return out
}

// evalKeyPredicate interprets a pure boolean helper over its two []byte
// parameters for every combination of (x is nil, y is nil, bytes.Equal(x,y)).
// eqOnNil reports that bytes.Equal was evaluated while a key was nil.
func evalKeyPredicate(h *ssa.Function) (tbl map[[3]bool]bool, eqOnNil bool, ok bool) {
	var keys []*ssa.Parameter
	for _, prm := range h.Params {
		if types.TypeString(prm.Type(), nil) == "[]byte" {
			keys = append(keys, prm)
		}
	}
	if len(keys) != 2 {
		return nil, false, false
	}
	tbl = map[[3]bool]bool{}
	for _, xn := range []bool{false, true} {
		for _, yn := range []bool{false, true} {
			for _, eq := range []bool{false, true} {
				env := map[ssa.Value]bool{}
				var eval func(v ssa.Value) (bool, bool)
				eval = func(v ssa.Value) (bool, bool) {
					if b, ok := env[v]; ok {
						return b, true
					}
					switch x := v.(type) {
					case *ssa.Const:
						if x.Value != nil && x.Value.Kind().String() == "Bool" {
							return x.Value.ExactString() == "true", true
						}
					}
					return false, false
				}
				blk := h.Blocks[0]
				var prev *ssa.BasicBlock
				done := false
				for steps := 0; steps < 200 && !done; steps++ {
					var next *ssa.BasicBlock
					for _, in := range blk.Instrs {
						switch x := in.(type) {
						case *ssa.DebugRef:
						case *ssa.Phi:
							for i, pb := range blk.Preds {
								if pb == prev {
									b, ok := eval(x.Edges[i])
									if !ok {
										return nil, false, false
									}
									env[x] = b
								}
							}
						case *ssa.BinOp:
							isNil := func(v ssa.Value) bool { c, ok := v.(*ssa.Const); return ok && c.IsNil() }
							var res bool
							switch {
							case (x.Op == token.EQL || x.Op == token.NEQ) && (isNil(x.Y) || isNil(x.X)):
								k := x.X
								if isNil(x.X) {
									k = x.Y
								}
								var n bool
								switch k {
								case ssa.Value(keys[0]):
									n = xn
								case ssa.Value(keys[1]):
									n = yn
								default:
									return nil, false, false
								}
								res = n == (x.Op == token.EQL)
							case x.Op == token.EQL || x.Op == token.NEQ:
								a, ok1 := eval(x.X)
								b, ok2 := eval(x.Y)
								if !ok1 || !ok2 {
									return nil, false, false
								}
								res = (a == b) == (x.Op == token.EQL)
							default:
								return nil, false, false
							}
							env[x] = res
						case *ssa.UnOp:
							if x.Op != token.NOT {
								return nil, false, false
							}
							a, ok := eval(x.X)
							if !ok {
								return nil, false, false
							}
							env[x] = !a
						case *ssa.Call:
							cal := x.Common().StaticCallee()
							if cal == nil || cal.String() != "bytes.Equal" {
								return nil, false, false
							}
							a0, a1 := x.Common().Args[0], x.Common().Args[1]
							if !((a0 == ssa.Value(keys[0]) && a1 == ssa.Value(keys[1])) || (a0 == ssa.Value(keys[1]) && a1 == ssa.Value(keys[0]))) {
								return nil, false, false
							}
							if xn || yn {
								eqOnNil = true
							}
							env[x] = eq
						case *ssa.If:
							c, ok := eval(x.Cond)
							if !ok {
								return nil, false, false
							}
							if c {
								next = blk.Succs[0]
							} else {
								next = blk.Succs[1]
							}
						case *ssa.Jump:
							next = blk.Succs[0]
						case *ssa.Return:
							b, ok := eval(x.Results[0])
							if !ok {
								return nil, false, false
							}
							tbl[[3]bool{xn, yn, eq}] = b
							done = true
						default:
							return nil, false, false
						}
					}
					if done {
						break
					}
					if next == nil {
						return nil, false, false
					}
					prev, blk = blk, next
				}
				if !done {
					return nil, false, false
				}
			}
		}
	}
	return tbl, eqOnNil, true
}

// isChangedFlag: al is a bool local of the method that one of its closures sets to true.
func isChangedFlag(al *ssa.Alloc) bool {
	if b, ok := al.Type().(*types.Pointer).Elem().Underlying().(*types.Basic); !ok || b.Kind() != types.Bool {
		return false
	}
	for _, a := range al.Parent().AnonFuncs {
		for _, f2 := range withAnon(a) {
			for _, b := range f2.Blocks {
				for _, in := range b.Instrs {
					if st, ok := in.(*ssa.Store); ok && isConstBool(st.Val, true) {
						if fv, ok := st.Addr.(*ssa.FreeVar); ok && core.BindingOf(fv) == ssa.Value(al) {
							return true
						}
					}
				}
			}
		}
	}
	return false
}

// derivesFromField: v is a load of field tname.fname, or a load of a local /
// captured variable one of whose assigned values is such a load.
func derivesFromField(v ssa.Value, tname, fname string) bool {
	isF := func(x ssa.Value) bool {
		f, ok := core.LoadedField(x)
		return ok && f.Name == fname && strings.HasSuffix(f.Struct, tname)
	}
	if isF(v) {
		return true
	}
	if phi, ok := v.(*ssa.Phi); ok {
		for _, e := range phi.Edges {
			if e != v && isF(e) {
				return true
			}
			if p2, ok := e.(*ssa.Phi); ok && p2 != phi {
				for _, e2 := range p2.Edges {
					if isF(e2) {
						return true
					}
				}
			}
		}
		return false
	}
	u, ok := v.(*ssa.UnOp)
	if !ok || u.Op != token.MUL {
		return false
	}
	cell := u.X
	if fv, ok := cell.(*ssa.FreeVar); ok {
		cell = core.BindingOf(fv)
	}
	al, ok := cell.(*ssa.Alloc)
	if !ok || al.Referrers() == nil {
		return false
	}
	for _, rf := range *al.Referrers() {
		if st, ok := rf.(*ssa.Store); ok && st.Addr == ssa.Value(al) && isF(st.Val) {
			return true
		}
	}
	return false
}

// queuedTaskRule: every call of the index maintenance function ui is made
// from a func literal that is handed (only) to TaskQueue.Do, the blocking
// FIFO submission; a direct call, TryDo-with-fallback or go statement lets
// one id's deltas overtake each other.
func queuedTaskRule(r *core.Run, rule string, ui *ssa.Function, okText, badText string) {
	p := r.P
	fns := p.FuncsOfPkg("store/badgerstore")
	// call sites: the calls of ui, or - when ui is only called from a private helper that the task
	// calls (updateIndexAndLog) - the calls of that helper
	var sites []ssa.CallInstruction
	var expand func(fn *ssa.Function, depth int)
	expand = func(fn *ssa.Function, depth int) {
		for _, c := range callsTo(fns, fn) {
			if par := c.Parent(); depth < 3 && par.Parent() == nil && p.IsPrivateHelper(par) && !core.IsGo(c) && !core.IsDefer(c) {
				expand(par, depth+1)
				continue
			}
			sites = append(sites, c)
		}
	}
	expand(ui, 0)
	for _, c := range sites {
		cl := c.Parent()
		good := cl.Parent() != nil && !core.IsGo(c)
		if good {
			// every use of the closure value is as the task argument of TaskQueue.Do
			nDo, nOther := 0, 0
			for _, in := range instrsOf(cl.Parent()) {
				mc, ok := in.(*ssa.MakeClosure)
				if !ok || mc.Fn != ssa.Value(cl) {
					continue
				}
				uses := closureUses(mc)
				for _, u := range uses {
					if call, ok := u.(ssa.CallInstruction); ok {
						if cal := call.Common().StaticCallee(); cal != nil && strings.HasSuffix(cal.String(), "taskqueue.TaskQueue).Do") && !core.IsGo(call) && len(call.Common().Args) > 1 && closureValueIs(call.Common().Args[1], mc) {
							nDo++
							continue
						}
					}
					nOther++
				}
			}
			good = nDo >= 1 && nOther == 0
		}
		r.Check(good, rule, core.FuncName(cl), "updateIndex-only-inside-queued-task", p.InstrPos(c), okText, badText)
	}
	// ... and what the task does it does itself: no goroutine is started by index maintenance or its
	// helpers (a `go notify(change)` per change lets the callbacks of two successive mutations of
	// one id overtake each other although the tasks ran in order)
	seen := map[*ssa.Function]bool{}
	var unit []*ssa.Function
	for _, h := range p.Helpers(ui) {
		for _, f2 := range withAnon(h) {
			if !seen[f2] {
				seen[f2] = true
				unit = append(unit, f2)
			}
		}
	}
	nGo := 0
	for _, f2 := range unit {
		for _, in := range instrsOf(f2) {
			if g, ok := in.(*ssa.Go); ok {
				nGo++
				r.Bad(rule, core.FuncName(f2), "index-maintenance-starts-no-goroutine", p.InstrPos(g), "index maintenance hands part of its work (the query-change callbacks, an index write) to a new goroutine: the FIFO task queue then orders only the hand-over, and the work of a later mutation of the same id can run before that of an earlier one")
			}
		}
	}
	if nGo == 0 {
		r.OK(rule, core.FuncName(ui), "index-maintenance-starts-no-goroutine", p.Pos(ui.Pos()), fmt.Sprintf("%d functions of the maintenance unit scanned, no go statement", len(unit)))
	}
}

func instrsOf(fn *ssa.Function) []ssa.Instruction {
	var out []ssa.Instruction
	for _, b := range fn.Blocks {
		out = append(out, b.Instrs...)
	}
	return out
}

// closureUses lists the instructions that use a closure value, looking
// through the local variable cell it may be stored in.
func closureUses(mc *ssa.MakeClosure) []ssa.Instruction {
	var out []ssa.Instruction
	if mc.Referrers() == nil {
		return out
	}
	for _, rf := range *mc.Referrers() {
		switch x := rf.(type) {
		case *ssa.DebugRef:
		case *ssa.Store:
			if al, ok := x.Addr.(*ssa.Alloc); ok && x.Val == ssa.Value(mc) && al.Referrers() != nil {
				for _, r2 := range *al.Referrers() {
					if u, ok := r2.(*ssa.UnOp); ok && u.Referrers() != nil {
						for _, r3 := range *u.Referrers() {
							if _, isDbg := r3.(*ssa.DebugRef); !isDbg {
								out = append(out, r3)
							}
						}
					}
				}
				continue
			}
			out = append(out, rf)
		default:
			out = append(out, rf)
		}
	}
	return out
}

func closureValueIs(v ssa.Value, mc *ssa.MakeClosure) bool {
	if v == ssa.Value(mc) {
		return true
	}
	if u, ok := v.(*ssa.UnOp); ok {
		if al, ok := u.X.(*ssa.Alloc); ok && al.Referrers() != nil {
			for _, rf := range *al.Referrers() {
				if st, ok := rf.(*ssa.Store); ok && st.Val == ssa.Value(mc) {
					return true
				}
			}
		}
	}
	return false
}

// indexRoles resolves the unexported anchors of the badger index code by role:
// the key builder (Index method: two []byte parameters -> []byte), the query
// prefix builder (Index method: one []byte parameter -> []byte), the index
// maintenance function (QueryStore method (string, interface{}, interface{})
// error) and the store change handler (QueryStore method (string, interface{},
// interface{}) without result).
type idxRoles struct {
	getKey, getQuery, updateIndex, handleChange *ssa.Function
}

func resolveIdxRoles(p *core.Prog, rel string) idxRoles {
	var ro idxRoles
	isBytes := func(t types.Type) bool { return types.TypeString(t, nil) == "[]byte" }
	for _, m := range methodsOf(p, rel, "Index") {
		sg := m.Signature
		if sg.Results().Len() != 1 || !isBytes(sg.Results().At(0).Type()) {
			continue
		}
		n := 0
		for i := 0; i < sg.Params().Len(); i++ {
			if isBytes(sg.Params().At(i).Type()) {
				n++
			}
		}
		// the entry-key builder takes the id and the index value (possibly more, e.g. a scratch
		// buffer), the query-prefix builder the prefix only
		if n >= 2 && (ro.getKey == nil || sg.Params().Len() < ro.getKey.Signature.Params().Len()) {
			ro.getKey = m
		}
		if n == 1 && sg.Params().Len() == 1 {
			ro.getQuery = m
		}
	}
	for _, m := range methodsOf(p, rel, "QueryStore") {
		sg := m.Signature
		if sg.Params().Len() != 3 || types.TypeString(sg.Params().At(0).Type(), nil) != "string" ||
			!isEmptyIface(sg.Params().At(1).Type()) || !isEmptyIface(sg.Params().At(2).Type()) {
			continue
		}
		switch sg.Results().Len() {
		case 0:
			ro.handleChange = m
		case 1:
			if types.TypeString(sg.Results().At(0).Type(), nil) == "error" {
				ro.updateIndex = m
			}
		}
	}
	return ro
}

// txnBodies: the functions that run as part of fn's database transactions and
// closures: its func literals, and methods handed to DB.Update / DB.View as
// method values (with their own literals).
// txnUnit: the transaction bodies of fn together with the private helpers they call.
func txnUnit(p *core.Prog, fn *ssa.Function) []*ssa.Function {
	out := txnBodies(fn)
	seen := map[*ssa.Function]bool{fn: true}
	for _, f := range out {
		seen[f] = true
	}
	for i := 0; i < len(out); i++ {
		for _, h := range p.Helpers(out[i]) {
			if !seen[h] {
				seen[h] = true
				out = append(out, h)
			}
		}
	}
	return out
}

func txnBodies(fn *ssa.Function) []*ssa.Function {
	seen := map[*ssa.Function]bool{}
	var out []*ssa.Function
	add := func(f *ssa.Function) {
		for _, x := range withAnon(f) {
			if !seen[x] && x != fn {
				seen[x] = true
				out = append(out, x)
			}
		}
	}
	for _, a := range fn.AnonFuncs {
		add(a)
	}
	for _, c := range core.Calls(fn) {
		if isBadgerCall(c, "DB", "Update") || isBadgerCall(c, "DB", "View") {
			if cl := closureArg(c); cl != nil && cl.Parent() == nil {
				add(cl)
			}
		}
	}
	return out
}

// listenerFieldOf: the field the exported registration method stores into.
func listenerFieldOf(p *core.Prog, rel, tname, setter string) core.Field {
	m := methodNamed(p, rel, tname, setter)
	if m == nil {
		return core.Field{}
	}
	var fld core.Field
	for _, b := range m.Blocks {
		for _, in := range b.Instrs {
			if st, ok := in.(*ssa.Store); ok {
				if f, ok := core.FieldOf(st.Addr); ok {
					fld = f
				}
			}
		}
	}
	return fld
}

// mayWriteParam: fn may write through its i-th parameter (a byte slice): an
// element store, a copy into it, an append onto it, or handing it to a module
// function that may.
func mayWriteParam(fn *ssa.Function, i int, depth int) bool {
	if fn == nil || len(fn.Blocks) == 0 || i >= len(fn.Params) || depth > 3 {
		return false
	}
	der := map[ssa.Value]bool{fn.Params[i]: true}
	for changed := true; changed; {
		changed = false
		for _, b := range fn.Blocks {
			for _, in := range b.Instrs {
				v, ok := in.(ssa.Value)
				if !ok || der[v] {
					continue
				}
				switch x := in.(type) {
				case *ssa.Slice:
					if der[x.X] {
						der[v], changed = true, true
					}
				case *ssa.Phi:
					for _, e := range x.Edges {
						if der[e] {
							der[v], changed = true, true
						}
					}
				case *ssa.ChangeType:
					if der[x.X] {
						der[v], changed = true, true
					}
				}
			}
		}
	}
	for _, b := range fn.Blocks {
		for _, in := range b.Instrs {
			switch x := in.(type) {
			case *ssa.Store:
				if ia, ok := x.Addr.(*ssa.IndexAddr); ok && der[ia.X] {
					return true
				}
			case *ssa.Call:
				switch core.CalleeName(x) {
				case "builtin:copy":
					if der[x.Call.Args[0]] {
						return true
					}
				case "builtin:append":
					if der[x.Call.Args[0]] {
						return true
					}
				default:
					if cal := x.Common().StaticCallee(); cal != nil && cal.Pkg == fn.Pkg {
						for j, a := range x.Common().Args {
							if der[a] && mayWriteParam(cal, j, depth+1) {
								return true
							}
						}
					}
				}
			}
		}
	}
	return false
}

// c13KeyPrivacy is rule K4.
func c13KeyPrivacy(r *core.Run, rel string) {
	p := r.P
	n := 0
	for _, fn := range p.FuncsOfPkg(rel) {
		for _, w := range core.Calls(fn) {
			if !isTxnWrite(w) || len(w.Common().Args) < 2 {
				continue
			}
			key := w.Common().Args[1]
			if !isByteSlice(key.Type()) {
				continue // SetEntry(&Entry{...}): the entry's key is judged where it is built
			}
			n++
			// values that are the same slice as the key: the key and the phis it flows into
			alias := map[ssa.Value]bool{key: true}
			for changed := true; changed; {
				changed = false
				for _, b := range fn.Blocks {
					for _, in := range b.Instrs {
						if phi, ok := in.(*ssa.Phi); ok && !alias[phi] {
							for _, e := range phi.Edges {
								if alias[e] {
									alias[phi], changed = true, true
								}
							}
						}
					}
				}
			}
			bad := ""
			for _, c := range core.Calls(fn) {
				if c == w || !(core.Reaches(w, c) || (c.Block() == w.Block() && core.Dominates(w, c))) {
					continue
				}
				cal := c.Common().StaticCallee()
				if cal == nil || cal.Pkg != fn.Pkg {
					continue
				}
				for j, a := range c.Common().Args {
					if alias[a] && mayWriteParam(cal, j, 0) {
						bad = core.FuncName(cal) + " at " + p.InstrPos(c)
					}
				}
			}
			r.Check(bad == "", "K4", core.FuncName(fn), "txn-key-not-rewritten:"+w.Common().StaticCallee().Name(), p.InstrPos(w), "the key slice handed to the transaction is not passed on as a writable buffer", "the key handed to the pending transaction write is afterwards passed to "+bad+", which may write into it: the pending write then refers to the new bytes (an index entry that should be deleted stays, or the new one is deleted)")
		}
	}
	r.Analysed["txn_writes_with_slice_key"] = n
}

// c12InitAnnounce: Init announces (OnChange, before = nil) only the seeds it
// wrote. The values handed to the change fan-out come from ranging over a map;
// every insertion into that map must follow a database write in the same
// function (the "key not found -> write" path), otherwise an id that Init
// skipped because a value already exists is announced as created with a value
// that is not stored - and every index then holds a phantom entry for it.
func c12InitAnnounce(r *core.Run, rule, rel string) {
	p := r.P
	init := methodNamed(p, rel, "Store", "Init")
	if init == nil {
		r.Unres(rule, "Store.Init", "missing")
		return
	}
	fan := fanoutFuncs(p, rel, "OnChange")
	lf := listenerFieldOf(p, rel, "Store", "OnChange")
	mayWrite := mayExec(p.FuncsOfPkg(rel), func(in ssa.Instruction) bool {
		c, ok := in.(ssa.CallInstruction)
		return ok && isTxnWrite(c)
	})
	unit := append([]*ssa.Function{init}, txnUnit(p, init)...)
	n := 0
	for _, f2 := range unit {
		for _, c := range core.Calls(f2) {
			var args []ssa.Value
			if cal := c.Common().StaticCallee(); cal != nil && fan[cal] {
				args = c.Common().Args[1:]
			} else if core.IsDynamic(c) && len(c.Common().Args) == 3 {
				if u, ok := c.Common().Value.(*ssa.UnOp); ok {
					if ia, ok := u.X.(*ssa.IndexAddr); ok {
						if f, ok := core.LoadedField(ia.X); ok && f == lf && lf.Name != "" {
							args = c.Common().Args
						}
					}
				}
			}
			if len(args) < 3 {
				continue
			}
			// the ranged map behind the announced id / value
			var m ssa.Value
			for _, a := range []ssa.Value{args[0], args[2]} {
				if ex, ok := core.Strip(a).(*ssa.Extract); ok {
					if nx, ok := ex.Tuple.(*ssa.Next); ok {
						if rg, ok := nx.Iter.(*ssa.Range); ok {
							m = rg.X
						}
					}
				}
			}
			if m == nil {
				continue
			}
			n++
			bad := ""
			for _, f3 := range unit {
				for _, b := range f3.Blocks {
					for _, in := range b.Instrs {
						mu, ok := in.(*ssa.MapUpdate)
						if !ok || !(mu.Map == m || sameRoot(mu.Map, m) || sameCellAcrossClosures(mu.Map, m)) {
							continue
						}
						after := false
						for _, c2 := range core.Calls(f3) {
							cal := c2.Common().StaticCallee()
							if (isTxnWrite(c2) || (cal != nil && mayWrite[cal])) && core.Dominates(c2, mu) {
								after = true
							}
						}
						if !after {
							bad = p.InstrPos(mu)
						}
					}
				}
			}
			r.Check(bad == "", rule, core.FuncName(f2), "announces-only-what-it-wrote", p.InstrPos(c), "the announced seeds are collected only after their database write", "Init announces entries collected at "+bad+" without a preceding database write: a seed skipped because its id already holds a value is announced as created with a value that is not stored (change listeners - and through them every index - see a phantom value)")
		}
	}
	if n == 0 {
		r.Bad(rule, core.FuncName(init), "announces-only-what-it-wrote", p.Pos(init.Pos()), "Init announces nothing it wrote (no change fan-out over the written seeds)")
	}
}

// sameCellAcrossClosures: a and b are loads of one local variable, one of them
// possibly through a closure's free variable.
func sameCellAcrossClosures(a, b ssa.Value) bool {
	cell := func(v ssa.Value) ssa.Value {
		u, ok := v.(*ssa.UnOp)
		if !ok || u.Op != token.MUL {
			return nil
		}
		if fv, ok := u.X.(*ssa.FreeVar); ok {
			return core.BindingOf(fv)
		}
		return u.X
	}
	ca, cb := cell(a), cell(b)
	return ca != nil && ca == cb
}

// isKeyPredicateHelper: a bool function over exactly two []byte parameters
// (the unchanged-key predicate extracted into a helper).
func isKeyPredicateHelper(fn *ssa.Function) bool {
	if fn.Signature.Results().Len() != 1 || types.TypeString(fn.Signature.Results().At(0).Type(), nil) != "bool" {
		return false
	}
	nb := 0
	for _, prm := range fn.Params {
		if types.TypeString(prm.Type(), nil) == "[]byte" {
			nb++
		}
	}
	return nb == 2 && len(fn.Params) == 2
}

// c12InitUnit is rule I1 for an Init whose transaction body delegates the
// marker read, the seed callback and the writes to private helpers. It returns
// false when the body has no such shape (the caller then reports the anchor).
func c12InitUnit(r *core.Run, cl *ssa.Function, rel string) bool {
	p := r.P
	fns := p.FuncsOfPkg(rel)
	mayGet := mayExec(fns, func(in ssa.Instruction) bool {
		c, ok := in.(ssa.CallInstruction)
		return ok && isBadgerCall(c, "Txn", "Get")
	})
	mayWrite := mayExec(fns, func(in ssa.Instruction) bool {
		c, ok := in.(ssa.CallInstruction)
		return ok && isTxnWrite(c)
	})
	mayDyn := mayExec(fns, func(in ssa.Instruction) bool {
		c, ok := in.(ssa.CallInstruction)
		return ok && core.IsDynamic(c)
	})
	var txnPrm ssa.Value
	for _, prm := range cl.Params {
		if strings.HasSuffix(core.TypeName(prm.Type()), "badger.Txn") {
			txnPrm = prm
		}
	}
	hasArg := func(c ssa.CallInstruction, v ssa.Value) bool {
		for _, a := range c.Common().Args {
			if a == v {
				return true
			}
		}
		return false
	}
	// marker: the key of a direct Set in the body that is also handed, with the transaction, to a
	// reading call (Txn.Get itself or a private helper that reaches it)
	// (the Set may itself sit in a private helper that only writes: writeMarker(txn, key))
	var get, set ssa.CallInstruction
	for _, c := range core.Calls(cl) {
		var keys []ssa.Value
		if isBadgerCall(c, "Txn", "Set") {
			keys = []ssa.Value{c.Common().Args[1]}
		} else if cal := c.Common().StaticCallee(); cal != nil && p.IsPrivateHelper(cal) && mayWrite[cal] && !mayGet[cal] && !mayDyn[cal] {
			for _, a := range c.Common().Args {
				if a != txnPrm && isByteSlice(a.Type()) {
					keys = append(keys, a)
				}
			}
		}
		for _, key := range keys {
			for _, g := range core.Calls(cl) {
				cal := g.Common().StaticCallee()
				if g == c || cal == nil {
					continue
				}
				if (isBadgerCall(g, "Txn", "Get") || (mayGet[cal] && !mayWrite[cal] && p.IsPrivateHelper(cal))) && hasArg(g, key) {
					get, set = g, c
				}
			}
		}
	}
	if get == nil || set == nil || txnPrm == nil {
		return false
	}
	fname := core.FuncName(cl)
	r.OK("I1", fname, "marker-read-and-written-in-closure", p.InstrPos(set), "the same key value is read (through "+core.CalleeName(get)+") and set on the closure's transaction")
	r.Check(hasArg(get, txnPrm) && hasArg(set, txnPrm), "I1", fname, "marker-on-same-txn", p.InstrPos(set), "marker read and write use the closure's own transaction", "marker write is on a different transaction than the read")
	isSeeding := func(in ssa.Instruction) bool {
		c, ok := in.(ssa.CallInstruction)
		if !ok || c == get {
			return false
		}
		if core.IsDynamic(c) || isTxnWrite(c) {
			return true
		}
		cal := c.Common().StaticCallee()
		return cal != nil && cal.Pkg == cl.Pkg && (mayWrite[cal] || mayDyn[cal])
	}
	good, why := true, ""
	for _, c := range core.Calls(cl) {
		if isSeeding(c) && c != set && !core.Dominates(get, c) {
			good, why = false, "call at "+p.InstrPos(c)+" is not dominated by the marker read"
		}
	}
	r.Check(good, "I1", fname, "marker-read-dominates-seeding", p.InstrPos(get), "the marker is read before the seed callback runs and before any write", why)
	// the found outcome gates everything: every seeding call (and the marker write) lies behind an
	// edge on the reader's result that excludes "found"
	notFound := func(e edgeCond) bool {
		cnd, succ := e.Norm()
		// the reader hands back Txn.Get's own error, compared with ErrKeyNotFound here
		if bo, ok := cnd.(*ssa.BinOp); ok && (bo.Op == token.EQL || bo.Op == token.NEQ) && core.Strip(bo.X) == get.Value() {
			if g, ok := loadedGlobal(bo.Y); ok && g == "ErrKeyNotFound" && (bo.Op == token.EQL) == (succ == 0) {
				if cal := get.Common().StaticCallee(); cal != nil && cal.Signature.Results().Len() == 1 {
					all := len(core.Returns(cal)) > 0
					for _, ret := range core.Returns(cal) {
						for _, src := range phiSources(ret.Results[0]) {
							ex, ok := core.Strip(src.V).(*ssa.Extract)
							if !ok || ex.Index != 1 {
								all = false
								continue
							}
							gc, ok := ex.Tuple.(*ssa.Call)
							if !ok || !isBadgerCall(gc, "Txn", "Get") {
								all = false
							}
						}
					}
					if all {
						return true
					}
				}
			}
		}
		ex, ok := cnd.(*ssa.Extract)
		if !ok || ex.Tuple != get.Value() {
			return false
		}
		if bt, ok := ex.Type().Underlying().(*types.Basic); ok && bt.Kind() == types.Bool {
			// the helper says "missing" exactly where Txn.Get reported the key as not found
			for _, d := range impliedConds(e, 0) {
				if os.Getenv("RV_DEBUG_I1") != "" {
					fmt.Fprintln(os.Stderr, "I1 implied:", d)
				}
				if strings.Contains(d, "Txn).Get==global:ErrKeyNotFound") && !strings.HasPrefix(d, "!") {
					return true
				}
			}
			if succ != 1 {
				return false
			}
			// the helper says "exists" exactly where Txn.Get succeeded
			for _, d := range impliedConds(edgeCond{e.If, 1 - e.Succ}, 0) {
				if strings.Contains(d, "Txn).Get") && strings.HasSuffix(d, "==nil") {
					return true
				}
			}
		}
		return false
	}
	gated := true
	for _, c := range core.Calls(cl) {
		if !isSeeding(c) {
			continue
		}
		ok := false
		for _, ed := range dominatingEdges(c) {
			if notFound(ed) {
				ok = true
			}
		}
		if !ok {
			gated = false
		}
	}
	r.Check(gated, "I1", fname, "found-edge-writes-nothing", p.InstrPos(get), "every write and callback lies behind the marker-not-found edge", "the already-initialised outcome does not gate the seeding: seeds can be written (or callbacks run) although the marker exists")
	last, _ := core.PathFree(set, nil, func(in ssa.Instruction) bool { return isSeeding(in) })
	r.Check(last, "I1", fname, "marker-written-last", p.InstrPos(set), "no write follows the marker write", "a write follows the marker write")
	c12MarkerOnEverySuccess(r, cl, set, isSeeding)
	// existing ids skipped: every other write in the unit lies behind a failed read of its key
	skipOK, n := true, 0
	for _, h := range p.Helpers(cl) {
		if isStoreSetValue(h) {
			continue // the encode-and-set helper itself: its call sites are what is guarded
		}
		if h == set.Common().StaticCallee() {
			continue // the helper that writes the marker
		}
		for _, c := range core.Calls(h) {
			cal := c.Common().StaticCallee()
			if c == set || cal == nil || !(isTxnWrite(c) && h != cl || isStoreSetValue(cal)) {
				continue
			}
			n++
			ok := false
			for _, ed := range dominatingEdges(c) {
				for _, d := range impliedConds(ed, 0) {
					if os.Getenv("RV_DEBUG_I1") != "" {
						fmt.Fprintln(os.Stderr, "I1 skip implied:", d)
					}
					if strings.Contains(d, "Txn).Get") && (strings.HasSuffix(d, "!=nil") || (strings.Contains(d, "==global:ErrKeyNotFound") && !strings.HasPrefix(d, "!"))) {
						ok = true
					}
				}
			}
			if !ok {
				skipOK = false
			}
		}
	}
	r.Check(skipOK && n > 0, "I1", fname, "existing-ids-skipped", p.Pos(cl.Pos()), "a seed is written only when reading its key failed (not found)", "seeds overwrite existing values")
	return true
}

// c12InitAllOrNothing: see rule I3.
func c12InitAllOrNothing(r *core.Run, rule, rel string) {
	p := r.P
	init := methodNamed(p, rel, "Store", "Init")
	if init == nil {
		r.Unres(rule, "Store.Init", "missing")
		return
	}
	// the adder: a closure nested in Init that is passed as the argument of a dynamic call (the
	// user's callback)
	var adder, body *ssa.Function
	var cbCall ssa.CallInstruction
	var scope []*ssa.Function
	for _, h := range append([]*ssa.Function{init}, txnUnit(p, init)...) {
		scope = append(scope, withAnon(h)...)
	}
	inScope := map[*ssa.Function]bool{}
	for _, f2 := range scope {
		inScope[f2] = true
	}
	for _, f2 := range scope {
		for _, c := range core.Calls(f2) {
			if !core.IsDynamic(c) || c.Common().IsInvoke() {
				continue
			}
			for _, a := range c.Common().Args {
				if mc, ok := core.Strip(a).(*ssa.MakeClosure); ok {
					if fn, ok := mc.Fn.(*ssa.Function); ok && inScope[fn] {
						adder, body, cbCall = fn, f2, c
					}
				} else if u, ok := core.Strip(a).(*ssa.UnOp); ok && u.Op == token.MUL {
					// add := func..; cb(add): the closure value sits in a local cell
					if al, ok := u.X.(*ssa.Alloc); ok && al.Referrers() != nil {
						for _, rf := range *al.Referrers() {
							if st, ok := rf.(*ssa.Store); ok {
								if mc, ok := core.Strip(st.Val).(*ssa.MakeClosure); ok {
									if fn, ok := mc.Fn.(*ssa.Function); ok {
										adder, body, cbCall = fn, f2, c
									}
								}
							}
						}
					}
				}
			}
		}
	}
	if adder == nil {
		r.Unres(rule, "Init.<adder>", "no closure of Init is handed to a dynamic call")
		return
	}
	// error cells shared between the adder and the transaction body
	isErrCell := func(v ssa.Value) (ssa.Value, bool) {
		if fv, ok := v.(*ssa.FreeVar); ok {
			v = core.BindingOf(fv)
		}
		al, ok := v.(*ssa.Alloc)
		if !ok {
			return nil, false
		}
		pt, ok := al.Type().(*types.Pointer)
		return al, ok && types.TypeString(pt.Elem(), nil) == "error"
	}
	const (
		none = iota
		collected
		failed
	)
	stored := map[ssa.Value]bool{} // values stored into a shared error cell in the adder
	for _, b := range adder.Blocks {
		for _, in := range b.Instrs {
			if st, ok := in.(*ssa.Store); ok {
				if fv, isFV := st.Addr.(*ssa.FreeVar); isFV {
					if _, ok := isErrCell(fv); ok {
						stored[st.Val] = true
					}
				}
			}
		}
	}
	nonNilValue := func(v ssa.Value) bool {
		switch x := v.(type) {
		case *ssa.Call:
			n := core.CalleeName(x)
			return n == "fmt.Errorf" || n == "errors.New"
		case *ssa.MakeInterface:
			return true
		}
		return false
	}
	fl := &core.Flow{Fn: adder, Entry: core.StateSet(0).Add(none)}
	fl.Transfer = func(in ssa.Instruction, st int) core.StateSet {
		switch x := in.(type) {
		case *ssa.MapUpdate:
			return core.StateSet(0).Add(collected)
		case *ssa.Store:
			if fv, isFV := x.Addr.(*ssa.FreeVar); isFV {
				if _, ok := isErrCell(fv); ok && nonNilValue(x.Val) {
					return core.StateSet(0).Add(failed)
				}
			}
		}
		return core.StateSet(0).Add(st)
	}
	fl.Branch = func(iff *ssa.If, succ int, st int) (int, bool) {
		cnd, sc := iff.Cond, succ
		for {
			u, ok := cnd.(*ssa.UnOp)
			if !ok || u.Op != token.NOT {
				break
			}
			cnd, sc = u.X, 1-sc
		}
		bo, ok := cnd.(*ssa.BinOp)
		if !ok || (bo.Op != token.NEQ && bo.Op != token.EQL) {
			return st, true
		}
		x, y := bo.X, bo.Y
		if c, isC := x.(*ssa.Const); isC && c.IsNil() {
			x, y = y, x
		}
		if c, isC := y.(*ssa.Const); !isC || !c.IsNil() {
			return st, true
		}
		shared := stored[x]
		if u, isU := x.(*ssa.UnOp); isU && u.Op == token.MUL {
			if _, ok := isErrCell(u.X); ok {
				shared = true
			}
		}
		if shared && (bo.Op == token.NEQ) == (sc == 0) {
			return failed, true // the shared error variable is non-nil on this edge
		}
		return st, true
	}
	res := fl.Run()
	for _, ret := range core.Returns(adder) {
		if adder.Recover != nil && ret.Block() == adder.Recover {
			continue
		}
		var conds []string
		for _, ed := range dominatingEdges(ret) {
			conds = append(conds, describeCond(ed))
		}
		st := res.Before[ret]
		r.Check(!st.Has(none), rule, core.FuncName(adder), "entry-collected-or-error-recorded:"+returnDesc(ret, conds), p.InstrPos(ret), "the entry was collected, or a non-nil error was recorded for the transaction body", "the function handed to the init callback can return without having collected the entry and without having recorded an error where the transaction body looks for it: the invalid seed is silently dropped, Init writes the others and the marker and reports success - the store stays half-seeded over all restarts")
	}
	// the transaction body returns the shared error before writing
	mayWrite := mayExec(p.FuncsOfPkg(rel), func(in ssa.Instruction) bool {
		c, ok := in.(ssa.CallInstruction)
		return ok && isTxnWrite(c)
	})
	checked := false
	for _, b := range body.Blocks {
		iff, ok := b.Instrs[len(b.Instrs)-1].(*ssa.If)
		if !ok {
			continue
		}
		bo, ok := iff.Cond.(*ssa.BinOp)
		if !ok || bo.Op != token.NEQ {
			continue
		}
		u, ok := bo.X.(*ssa.UnOp)
		if !ok || u.Op != token.MUL {
			continue
		}
		if _, ok := isErrCell(u.X); !ok {
			continue
		}
		tb := b.Succs[0]
		if ret, ok := tb.Instrs[len(tb.Instrs)-1].(*ssa.Return); ok && len(ret.Results) > 0 && core.Reaches(cbCall, iff) {
			good := true
			for _, c := range core.Calls(body) {
				cal := c.Common().StaticCallee()
				if (isTxnWrite(c) || (cal != nil && mayWrite[cal])) && !core.Dominates(iff, c) {
					good = false
				}
			}
			if good {
				checked = true
			}
		}
	}
	// the callback may be run by a helper of the transaction body (loadInitEntries(cb)): its error
	// result must then end the caller before any write
	if checked && body.Parent() == nil && p.IsPrivateHelper(body) {
		for _, cs := range p.CallersOf(body) {
			caller := cs.Parent()
			var errVal ssa.Value
			if cv := cs.Value(); cv != nil {
				if _, isTuple := cv.Type().(*types.Tuple); !isTuple {
					errVal = cv
				} else if cv.Referrers() != nil {
					for _, rf := range *cv.Referrers() {
						if ex, ok := rf.(*ssa.Extract); ok && types.TypeString(ex.Type(), nil) == "error" {
							errVal = ex
						}
					}
				}
			}
			for _, c := range core.Calls(caller) {
				cal := c.Common().StaticCallee()
				if !(isTxnWrite(c) || (cal != nil && mayWrite[cal])) {
					continue
				}
				dom := false
				for _, ed := range dominatingEdges(c) {
					cnd, succ := ed.Norm()
					bo, ok := cnd.(*ssa.BinOp)
					if !ok || (bo.Op != token.EQL && bo.Op != token.NEQ) || errVal == nil || bo.X != errVal {
						continue
					}
					if k, isC := bo.Y.(*ssa.Const); isC && k.IsNil() && (bo.Op == token.EQL) == (succ == 0) {
						dom = true
					}
				}
				if !dom {
					checked = false
				}
			}
		}
	}
	r.Check(checked, rule, core.FuncName(body), "recorded-error-returned-before-any-write", p.InstrPos(cbCall), "after the callback the transaction body returns the recorded error, before any write", "the transaction body does not return the error recorded by the adder before it starts writing")
}

// c13AllIndexes: see rule K6. Loops are found as map ranges over a field of
// the query store whose elements are indexes.
func c13AllIndexes(r *core.Run, rule, rel string) {
	p := r.P
	n := 0
	for _, fn := range p.FuncsOfPkg(rel) {
		for _, b := range fn.Blocks {
			for _, in := range b.Instrs {
				rg, ok := in.(*ssa.Range)
				if !ok {
					continue
				}
				mt, ok := rg.X.Type().Underlying().(*types.Map)
				if !ok || core.TypeName(mt.Elem()) != qual(rel, "Index") && core.TypeName(mt.Elem()) != "Index" {
					continue
				}
				f, ok := core.LoadedField(rg.X)
				if !ok || !strings.HasSuffix(f.Struct, "QueryStore") {
					continue
				}
				// the loop body: the true successor of the test on next's ok
				var body *ssa.BasicBlock
				if rg.Referrers() != nil {
					for _, rf := range *rg.Referrers() {
						nx, ok := rf.(*ssa.Next)
						if !ok || nx.Referrers() == nil {
							continue
						}
						for _, r2 := range *nx.Referrers() {
							if ex, ok := r2.(*ssa.Extract); ok && ex.Index == 0 && ex.Referrers() != nil {
								for _, r3 := range *ex.Referrers() {
									if iff, ok := r3.(*ssa.If); ok {
										body = iff.Block().Succs[0]
									}
								}
							}
						}
					}
				}
				if body == nil {
					continue
				}
				n++
				bad := ""
				for _, ret := range core.Returns(fn) {
					if !body.Dominates(ret.Block()) {
						continue
					}
					if len(ret.Results) == 0 {
						bad = p.InstrPos(ret)
						continue
					}
					last := ret.Results[len(ret.Results)-1]
					if c, isC := last.(*ssa.Const); isC && c.IsNil() && types.TypeString(last.Type(), nil) == "error" {
						bad = p.InstrPos(ret)
					}
				}
				r.Check(bad == "", rule, core.FuncName(fn), "no-success-return-inside-the-index-loop", p.InstrPos(rg), "the loop over the indexes is left early only with an error", "the loop over the store's indexes returns success from inside its body (at "+bad+"): the indexes not yet visited - which ones depends on map order - are not maintained for this change and keep stale entries (or miss the new one)")
			}
		}
	}
	if n == 0 {
		r.Bad(rule, "QueryStore", "index-loops-found", "-", "no loop over the query store's indexes found (rule went vacuous)")
	}
}

// isStoreSetValue: the store's "encode the value and set it" helper, by role:
// a function of the store package that takes a *badger.Txn and a value of
// interface type and calls Txn.Set on that transaction.
func isStoreSetValue(fn *ssa.Function) bool {
	if fn == nil || len(fn.Blocks) == 0 {
		return false
	}
	if fn.Name() == "setValue" {
		return true
	}
	var txn *ssa.Parameter
	hasVal := false
	for _, prm := range fn.Params {
		if pt, ok := prm.Type().(*types.Pointer); ok && core.TypeName(pt.Elem()) != "" && strings.HasSuffix(types.TypeString(pt.Elem(), nil), "badger.Txn") {
			txn = prm
		}
		if isEmptyIface(prm.Type()) {
			hasVal = true
		}
	}
	if txn == nil || !hasVal || fn.Signature.Results().Len() != 1 {
		return false
	}
	for _, c := range core.Calls(fn) {
		if isBadgerCall(c, "Txn", "Set") && len(c.Common().Args) > 0 && c.Common().Args[0] == ssa.Value(txn) {
			return true
		}
	}
	return false
}

// c12ReadsOnWritingTxn: see rule T3.
func c12ReadsOnWritingTxn(r *core.Run, rule, rel string) {
	p := r.P
	fns := p.FuncsOfPkg(rel)
	seenCall := map[string]bool{}
	n := 0
	for _, fn := range fns {
		for _, c := range core.Calls(fn) {
			if !isBadgerCall(c, "DB", "Update") {
				continue
			}
			cl := closureArg(c)
			if cl == nil {
				continue
			}
			unit := append([]*ssa.Function{}, withAnon(cl)...)
			for i := 0; i < len(unit); i++ {
				for _, h := range p.Helpers(unit[i]) {
					dup := false
					for _, u := range unit {
						if u == h {
							dup = true
						}
					}
					if !dup {
						unit = append(unit, h)
					}
				}
			}
			for _, f2 := range unit {
				for _, c2 := range core.Calls(f2) {
					key := fmt.Sprintf("%p/%p", cl, c2)
					if seenCall[key] {
						continue
					}
					seenCall[key] = true
					switch {
					case isBadgerCall(c2, "Txn", "Get"), isBadgerCall(c2, "Txn", "NewIterator"):
						n++
						inUnit := map[*ssa.Function]bool{}
						for _, u := range unit {
							inUnit[u] = true
						}
						ok := fromClosureTxn(p, c2.Common().Args[0], cl, inUnit, 0)
						r.Check(ok, rule, core.FuncName(f2), "read:"+c2.Common().StaticCallee().Name()+"-on-the-writing-transaction", p.InstrPos(c2), "the read is made on the transaction that will commit the writes", "inside an update transaction a read is made on another transaction ("+valDesc(c2.Common().Args[0])+"): a concurrent change of what was read is not detected as a conflict at commit, and what is written from the stale read is persisted")
					case isBadgerCall(c2, "DB", "NewTransaction"), isBadgerCall(c2, "DB", "View"), isBadgerCall(c2, "DB", "Update"):
						r.Bad(rule, core.FuncName(f2), "no-second-transaction-inside-update:"+c2.Common().StaticCallee().Name(), p.InstrPos(c2), "a second transaction is opened inside an update transaction: what it reads is not in the committing transaction's read set")
					}
				}
			}
		}
	}
	if n == 0 {
		r.Bad(rule, rel, "reads-inside-update-closures-found", "-", "no Txn.Get / NewIterator inside an update closure found (rule went vacuous)")
	}
}

// fromClosureTxn: v is the transaction parameter of the update closure cl, or a
// parameter / captured variable of a function of its unit that every call site
// inside the unit binds to it.
func fromClosureTxn(p *core.Prog, v ssa.Value, cl *ssa.Function, inUnit map[*ssa.Function]bool, depth int) bool {
	if depth > 5 || v == nil {
		return false
	}
	switch x := v.(type) {
	case *ssa.Parameter:
		if x.Parent() == cl {
			return strings.HasSuffix(types.TypeString(x.Type(), nil), "badger.Txn")
		}
		pi := -1
		for i, q := range x.Parent().Params {
			if q == x {
				pi = i
			}
		}
		n := 0
		for _, cs := range p.CallersOf(x.Parent()) {
			if !inUnit[cs.Parent()] {
				continue // a call from another transaction's unit is that unit's business
			}
			n++
			if pi < 0 || pi >= len(cs.Common().Args) || !fromClosureTxn(p, cs.Common().Args[pi], cl, inUnit, depth+1) {
				return false
			}
		}
		return n > 0
	case *ssa.FreeVar:
		return fromClosureTxn(p, core.BindingOf(x), cl, inUnit, depth+1)
	case *ssa.UnOp:
		if x.Op == token.MUL {
			if al, ok := x.X.(*ssa.Alloc); ok && al.Referrers() != nil {
				n := 0
				for _, rf := range *al.Referrers() {
					if st, ok := rf.(*ssa.Store); ok && st.Addr == ssa.Value(al) {
						n++
						if !fromClosureTxn(p, st.Val, cl, inUnit, depth+1) {
							return false
						}
					}
				}
				return n > 0
			}
			if fv, ok := x.X.(*ssa.FreeVar); ok {
				return fromClosureTxn(p, &ssa.UnOp{Op: token.MUL, X: core.BindingOf(fv)}, cl, inUnit, depth+1)
			}
		}
	}
	return false
}

// c13KeyPresenceByNil: an index key tells "this value is not indexed" by being
// nil; an empty, non-nil key is a key like any other (the empty name sorts
// first). Code that decides anything from len(key) compared with a constant
// conflates the two. Length used as a size (make, offsets) is not a decision.
func c13KeyPresenceByNil(r *core.Run, rule, rel string) {
	p := r.P
	nKeys, bad := 0, 0
	for _, fn := range p.FuncsOfPkg(rel) {
		for _, c := range core.Calls(fn) {
			if !core.IsDynamic(c) || c.Value() == nil {
				continue
			}
			f, ok := core.LoadedField(c.Common().Value)
			if !ok || f.Name != "Key" || !strings.HasSuffix(f.Struct, "Index") {
				continue
			}
			nKeys++
			// the key and everything it is merged into
			set := map[ssa.Value]bool{}
			var grow func(v ssa.Value, d int)
			grow = func(v ssa.Value, d int) {
				if d > 5 || set[v] || v.Referrers() == nil {
					return
				}
				set[v] = true
				for _, rf := range *v.Referrers() {
					if phi, ok := rf.(*ssa.Phi); ok {
						grow(phi, d+1)
					}
				}
			}
			grow(c.Value(), 0)
			for v := range set {
				for _, rf := range *v.Referrers() {
					lc, ok := rf.(*ssa.Call)
					if !ok || core.CalleeName(lc) != "builtin:len" || lc.Referrers() == nil {
						continue
					}
					for _, r2 := range *lc.Referrers() {
						bo, ok := r2.(*ssa.BinOp)
						if !ok {
							continue
						}
						switch bo.Op {
						case token.EQL, token.NEQ, token.GTR, token.LSS, token.GEQ, token.LEQ:
						default:
							continue
						}
						other := bo.Y
						if other == ssa.Value(lc) {
							other = bo.X
						}
						if _, isC := core.ConstInt(other); isC {
							bad++
							r.Bad(rule, core.FuncName(fn), "key-presence-tested-by-nil-not-length", p.InstrPos(bo), "the length of an index key is compared with a constant: an empty but non-nil key (a value whose indexed member is the empty string) is then treated as 'not indexed', although index maintenance and the scan treat it as a key - a value with the empty key is missed by affectsQuery / the index although it is in the query's result")
						}
					}
				}
			}
		}
	}
	if bad == 0 {
		r.Check(nKeys > 0, rule, rel, "key-presence-tested-by-nil-not-length", "-", fmt.Sprintf("%d index-key computations; no decision is taken from a key's length", nKeys), "no call of an index's Key function found (rule went vacuous)")
	}
}

// c13ReaderSplitsLast: the reader of index entries (FetchCollection) takes the
// resource id after the *last* separator byte of the entry - index keys are
// arbitrary bytes and may contain the separator, ids may not. (C13.K1's reader
// clause under another property's name.)
func c13ReaderSplitsLast(r *core.Run, rule, rel string) {
	p := r.P
	fc := methodNamed(p, rel, "IndexQuery", "FetchCollection")
	if fc == nil {
		r.Unres(rule, rel+".IndexQuery.FetchCollection", "missing")
		return
	}
	var last, first ssa.CallInstruction
	for _, f2 := range p.Scope(fc) {
		for _, c := range core.Calls(f2) {
			if cal := c.Common().StaticCallee(); cal != nil {
				switch cal.String() {
				case "bytes.LastIndexByte", "bytes.LastIndex":
					last = c
				case "bytes.IndexByte", "bytes.Index", "bytes.Cut", "bytes.SplitN", "bytes.Split":
					first = c
				}
			}
		}
	}
	r.Check(last != nil && first == nil, rule, core.FuncName(fc), "reader-splits-at-last-separator", posOf(p, last), "the id is what follows the last separator of the entry", "the reader of index entries does not (only) split at the last separator: an index key that contains the separator byte (a binary key) yields a wrong id, a truncated key for the filter, or drops the entry")
}

// c14EventsGetTheStoreQuery: where the query handler lets a request-handler
// callback translate the request into the *store's* query, that translated
// query - the one the result is fetched with - is what the change is asked
// about (QueryChange.Events). Asking with the untranslated request query
// answers "not affected" for every parameter the translation renames.
func c14EventsGetTheStoreQuery(r *core.Run, rule string) {
	p := r.P
	n := 0
	isValues := func(t types.Type) bool { return types.TypeString(t, nil) == "net/url.Values" }
	for _, m := range methodsOf(p, "store", "queryHandler") {
		for _, fn := range withAnon(m) {
			var evCalls []ssa.CallInstruction
			var translated []ssa.Value
			for _, c := range core.Calls(fn) {
				if c.Common().IsInvoke() && c.Common().Method.Name() == "Events" {
					evCalls = append(evCalls, c)
				}
				// a dynamic call of a callback member of the handler whose first result is url.Values
				if core.IsDynamic(c) && !c.Common().IsInvoke() && c.Value() != nil {
					if f, ok := core.LoadedField(c.Common().Value); ok && strings.HasSuffix(f.Struct, "queryHandler") {
						v := c.Value()
						if tup, isT := v.Type().(*types.Tuple); isT && tup.Len() > 0 && isValues(tup.At(0).Type()) && v.Referrers() != nil {
							for _, rf := range *v.Referrers() {
								if ex, ok := rf.(*ssa.Extract); ok && ex.Index == 0 {
									translated = append(translated, ex)
								}
							}
						}
					}
				}
			}
			// ... or the call of a helper of the package that makes that callback call and hands back
			// the translated query (requestQuery(r) (url.Values, error))
			for _, c := range core.Calls(fn) {
				cal := c.Common().StaticCallee()
				if cal == nil || cal.Pkg != fn.Pkg || len(cal.Blocks) == 0 || c.Value() == nil || cal.Signature.Results().Len() == 0 || !isValues(cal.Signature.Results().At(0).Type()) {
					continue
				}
				calls := false
				for _, h := range p.Helpers(cal) {
					for _, hc := range core.Calls(h) {
						if core.IsDynamic(hc) && !hc.Common().IsInvoke() {
							if f, ok := core.LoadedField(hc.Common().Value); ok && strings.HasSuffix(f.Struct, "queryHandler") {
								calls = true
							}
						}
					}
				}
				if !calls {
					continue
				}
				v := c.Value()
				if _, isT := v.Type().(*types.Tuple); isT {
					if v.Referrers() != nil {
						for _, rf := range *v.Referrers() {
							if ex, ok := rf.(*ssa.Extract); ok && ex.Index == 0 {
								translated = append(translated, ex)
							}
						}
					}
				} else {
					translated = append(translated, v)
				}
			}
			if len(evCalls) == 0 || len(translated) == 0 {
				continue
			}
			for _, ec := range evCalls {
				n++
				arg := ec.Common().Args[0]
				ok := false
				for _, src := range phiSources(arg) {
					for _, t := range translated {
						if src.V == t {
							ok = true
						}
					}
				}
				r.Check(ok, rule, core.FuncName(fn), "Events<-query-returned-by-the-request-handler", p.InstrPos(ec), "the change is asked about the translated (store) query", "QueryChange.Events is called with "+valDesc(arg)+" although a request-handler callback translates the request into the store's query in this function: with a handler that renames or derives parameters, a mutation that changes the result is reported as not affecting the query, and the client keeps a result a fresh get no longer returns")
			}
		}
	}
	if n == 0 {
		r.OKTrivial(rule, "store.queryHandler", "Events<-query-returned-by-the-request-handler", "-", "no function of the query handler both translates the request and asks the change")
	}
}

// c13PrefixInsideKey: an index entry is <name>:<key> SEP <id>, and badger's
// prefix match runs over the whole entry. An entry belongs to the result only
// if the query prefix ends inside the key part, i.e. not beyond the separator:
// the id is appended only behind a comparison of the separator's position
// with a length (the prefix's). Without it a prefix that contains the
// separator byte matches through the separator into the ids.
func c13PrefixInsideKey(r *core.Run, rule, rel string) {
	p := r.P
	fc := methodNamed(p, rel, "IndexQuery", "FetchCollection")
	if fc == nil {
		r.Unres(rule, rel+".IndexQuery.FetchCollection", "missing")
		return
	}
	scope := p.Scope(fc)
	sepOf := map[*ssa.Function][]ssa.Value{}
	for _, f2 := range scope {
		for _, c := range core.Calls(f2) {
			if cal := c.Common().StaticCallee(); cal != nil && (cal.String() == "bytes.LastIndexByte" || cal.String() == "bytes.LastIndex") && c.Value() != nil {
				sepOf[f2] = append(sepOf[f2], c.Value())
			}
		}
	}
	// ... and the position handed back by a helper that searched for it (sep, err := separatorIndex(k))
	for changed, round := true, 0; changed && round < 3; round++ {
		changed = false
		// ... or handed on to a helper that decides with it (accepts(entry, sep))
		for _, f2 := range scope {
			for _, c := range core.Calls(f2) {
				cal := c.Common().StaticCallee()
				if cal == nil || cal == f2 || len(cal.Blocks) == 0 || cal.Pkg != f2.Pkg {
					continue
				}
				args := c.Common().Args
				for i, a := range args {
					isSep := false
					for _, sp := range sepOf[f2] {
						if core.Strip(a) == sp {
							isSep = true
						}
					}
					if !isSep || i >= len(cal.Params) {
						continue
					}
					dup := false
					for _, have := range sepOf[cal] {
						if have == ssa.Value(cal.Params[i]) {
							dup = true
						}
					}
					if !dup {
						sepOf[cal] = append(sepOf[cal], cal.Params[i])
						changed = true
					}
				}
			}
		}
		for _, f2 := range scope {
			for _, c := range core.Calls(f2) {
				cal := c.Common().StaticCallee()
				if cal == nil || len(sepOf[cal]) == 0 || c.Value() == nil || cal == f2 {
					continue
				}
				for _, ret := range core.Returns(cal) {
					for i, rv := range ret.Results {
						isSep := false
						for _, src := range phiSources(rv) {
							for _, sp := range sepOf[cal] {
								if core.Strip(src.V) == sp {
									isSep = true
								}
							}
						}
						if !isSep {
							continue
						}
						var got ssa.Value
						if len(ret.Results) == 1 {
							got = c.Value()
						} else if c.Value().Referrers() != nil {
							for _, rf := range *c.Value().Referrers() {
								if ex, ok := rf.(*ssa.Extract); ok && ex.Index == i {
									got = ex
								}
							}
						}
						if got == nil {
							continue
						}
						dup := false
						for _, have := range sepOf[f2] {
							if have == got {
								dup = true
							}
						}
						if !dup {
							sepOf[f2] = append(sepOf[f2], got)
							changed = true
						}
					}
				}
			}
		}
	}
	// what the iterator is asked to match entries with
	prefixOrigins := map[ssa.Value]bool{}
	for _, f2 := range scope {
		for _, c := range core.Calls(f2) {
			if strings.HasSuffix(core.CalleeName(c), "badger.Iterator).ValidForPrefix") && len(c.Common().Args) > 0 {
				prefixOrigins[valueOrigin(p, c.Common().Args[len(c.Common().Args)-1], 0)] = true
			}
		}
	}
	// comparesSep: the edge's condition relates a separator position to a non-constant value
	comparesSep := func(ed edgeCond, seps []ssa.Value) bool {
		cnd, _ := ed.Norm()
		bo, ok := cnd.(*ssa.BinOp)
		if !ok {
			return false
		}
		switch bo.Op {
		case token.GTR, token.LSS, token.GEQ, token.LEQ:
		default:
			return false
		}
		for _, sp := range seps {
			other := ssa.Value(nil)
			if core.Strip(bo.X) == sp {
				other = bo.Y
			} else if core.Strip(bo.Y) == sp {
				other = bo.X
			}
			if other == nil {
				continue
			}
			if _, isConst := other.(*ssa.Const); !isConst {
				// the length compared is that of the prefix the iterator matches entries with (name, ':' and
				// key prefix): where both can be traced and differ (the bare key prefix, which is shorter
				// by the name), the comparison does not keep a prefix from matching through the separator
				if lo, ok := lenOrigin(p, other); ok && len(prefixOrigins) > 0 && !prefixOrigins[lo] {
					continue
				}
				return true
			}
		}
		return false
	}
	// a helper that finds the separator decides for its caller: every return of it that is not
	// behind the comparison reports "no match" (a false bool or a non-nil error)
	decides := map[*ssa.Function]bool{}
	for h, seps := range sepOf {
		if h == fc || h.Parent() != nil {
			continue
		}
		ok, compared := true, false
		for _, ret := range core.Returns(h) {
			behind := false
			for _, ed := range dominatingEdges(ret) {
				if comparesSep(ed, seps) {
					behind = true
					compared = true
				}
			}
			if behind {
				continue
			}
			refuses := false
			for _, rv := range ret.Results {
				if isConstBool(rv, false) {
					refuses = true
				}
				if types.TypeString(rv.Type(), nil) == "error" {
					if c, isC := rv.(*ssa.Const); !isC || !c.IsNil() {
						refuses = true
					}
				}
			}
			if !refuses {
				ok = false
			}
		}
		decides[h] = ok && compared
	}
	var fromCall func(v ssa.Value, d int) bool
	fromCall = func(v ssa.Value, d int) bool {
		if d > 5 || v == nil {
			return false
		}
		switch x := core.Strip(v).(type) {
		case *ssa.Call:
			cal := x.Common().StaticCallee()
			return cal != nil && decides[cal]
		case *ssa.Extract:
			return fromCall(x.Tuple, d+1)
		case *ssa.BinOp:
			return fromCall(x.X, d+1) || fromCall(x.Y, d+1)
		case *ssa.UnOp:
			return fromCall(x.X, d+1)
		case *ssa.Phi:
			for _, e := range x.Edges {
				if fromCall(e, d+1) {
					return true
				}
			}
		}
		return false
	}
	n := 0
	for _, f2 := range scope {
		hasSep := len(sepOf[f2]) > 0
		viaHelper := false
		for _, c := range core.Calls(f2) {
			if cal := c.Common().StaticCallee(); cal != nil && len(sepOf[cal]) > 0 {
				viaHelper = true
			}
		}
		if !hasSep && !viaHelper {
			continue
		}
		for _, c := range core.Calls(f2) {
			call, ok := c.(*ssa.Call)
			if !ok || core.CalleeName(call) != "builtin:append" || types.TypeString(call.Type(), nil) != "[]string" {
				continue
			}
			n++
			guarded := false
			for _, ed := range ctxEdges(p, call, fc, 0) {
				if comparesSep(ed, sepOf[f2]) {
					guarded = true
				}
				cnd, _ := ed.Norm()
				if fromCall(cnd, 0) {
					guarded = true
				}
			}
			r.Check(guarded, rule, core.FuncName(f2), "id-taken-only-when-the-prefix-ends-before-the-separator", p.InstrPos(call), "the separator's position is compared with the prefix length before the entry is accepted", "an index entry is accepted without comparing the position of the id separator with the length of the query prefix: a prefix containing the separator byte matches through it into the ids, and values whose key is only a part of the prefix are returned")
		}
	}
	if n == 0 {
		r.Bad(rule, core.FuncName(fc), "id-taken-only-when-the-prefix-ends-before-the-separator", p.Pos(fc.Pos()), "no result append next to a separator search found (rule went vacuous)")
	}
}

// c12MarkerOnEverySuccess: once the seeding part of Init's transaction body has
// been entered (the first seed callback or write), the body succeeds only
// through the write of the marker: every return reachable from a seeding
// instruction yields the marker write's own result or an error that was tested
// non-nil. A "nothing was created, done" return leaves the store unmarked, and
// the next Init seeds again - resurrecting seeds deleted in between.
func c12MarkerOnEverySuccess(r *core.Run, cl *ssa.Function, set ssa.Instruction, isSeeding func(ssa.Instruction) bool) {
	p := r.P
	after := map[*ssa.BasicBlock]bool{}
	var walk func(b *ssa.BasicBlock)
	walk = func(b *ssa.BasicBlock) {
		if after[b] {
			return
		}
		after[b] = true
		for _, s := range b.Succs {
			walk(s)
		}
	}
	sameBlock := map[*ssa.BasicBlock]bool{}
	for _, b := range cl.Blocks {
		for _, in := range b.Instrs {
			if in != set && isSeeding(in) {
				sameBlock[b] = true
				for _, s := range b.Succs {
					walk(s)
				}
			}
		}
	}
	setVal, _ := set.(ssa.Value)
	bad := ""
	n := 0
	for _, ret := range core.Returns(cl) {
		if len(ret.Results) != 1 || !(after[ret.Block()] || sameBlock[ret.Block()]) {
			continue
		}
		n++
		for _, src := range phiSources(ret.Results[0]) {
			v := core.Strip(src.V)
			if setVal != nil && (v == setVal) {
				continue
			}
			if ex, ok := v.(*ssa.Extract); ok && setVal != nil && ex.Tuple == setVal {
				continue
			}
			if c, ok := v.(*ssa.Const); !ok || !c.IsNil() {
				nonNil := false
				for _, ed := range srcEdges(ret, src) {
					ci := core.Cond(ed.If.Cond)
					if ci.Kind != "nilcmp" || !(core.Strip(ci.X) == v || sameVariable(core.Strip(ci.X), v)) {
						continue
					}
					truth := ed.Succ == 0
					if ci.Negate {
						truth = !truth
					}
					if (ci.Op == token.NEQ) == truth {
						nonNil = true
					}
				}
				if nonNil {
					continue
				}
			}
			bad = p.InstrPos(ret)
		}
	}
	if n == 0 {
		return
	}
	r.Check(bad == "", "I1", core.FuncName(cl), "success-after-seeding-only-through-the-marker-write", p.InstrPos(set), "every return behind the seeding yields the marker write's result or a tested error", "the transaction body can succeed (return at "+bad+") after the seeding part was entered without writing the marker: the store stays unmarked, the next Init takes the first-run path again and re-creates seeds that were deleted in the meantime")
}

// c13DecodeTargetFresh is C13.K10 (shared as C11.K5).
func c13DecodeTargetFresh(r *core.Run, rule, rel string) {
	p := r.P
	n := 0
	for _, fn := range p.FuncsOfPkg(rel) {
		for _, c := range core.Calls(fn) {
			if core.CalleeName(c) != "encoding/json.Unmarshal" || len(c.Common().Args) != 2 {
				continue
			}
			dst := c.Common().Args[1]
			if mi, ok := dst.(*ssa.MakeInterface); ok {
				dst = mi.X
			}
			ic, ok := core.Strip(dst).(*ssa.Call)
			if !ok || ic.Common().StaticCallee() == nil || ic.Common().StaticCallee().String() != "(reflect.Value).Interface" || len(ic.Call.Args) == 0 {
				continue
			}
			n++
			why := ""
			var srcs []ssa.Value
			for _, src := range phiSources(ic.Call.Args[0]) {
				v := core.Strip(src.V)
				// a variable captured by the decoding closure: what the enclosing function binds
				if ld, isLd := v.(*ssa.UnOp); isLd && ld.Op == token.MUL {
					if fv2, isFV2 := ld.X.(*ssa.FreeVar); isFV2 {
						v = fv2 // captured by reference: the binding is the variable's cell
					}
				}
				if fv, isFV := v.(*ssa.FreeVar); isFV && fn.Parent() != nil {
					bound := false
					for _, mc := range instrsOf(fn.Parent()) {
						if mk, isMk := mc.(*ssa.MakeClosure); isMk && mk.Fn == ssa.Value(fn) {
							for i, q := range fn.FreeVars {
								if q == fv && i < len(mk.Bindings) {
									for _, s2 := range phiSources(mk.Bindings[i]) {
										srcs = append(srcs, core.Strip(s2.V))
									}
									bound = true
								}
							}
						}
					}
					if bound {
						continue
					}
				}
				srcs = append(srcs, v)
			}
			for _, v := range srcs {
				if nc, isC := v.(*ssa.Call); isC && nc.Common().StaticCallee() != nil && nc.Common().StaticCallee().String() == "reflect.New" {
					continue
				}
				if al, isAl := v.(*ssa.Alloc); isAl {
					v = &ssa.UnOp{Op: token.MUL, X: al} // a captured cell: judged like a load of it
				}
				// a spilled local: every store into the cell is a reflect.New result
				if ld, isLd := v.(*ssa.UnOp); isLd && ld.Op == token.MUL {
					if al, isAl := ld.X.(*ssa.Alloc); isAl && al.Referrers() != nil {
						all, cnt := true, 0
						for _, rf := range *al.Referrers() {
							if st, isSt := rf.(*ssa.Store); isSt && st.Addr == ssa.Value(al) {
								cnt++
								sv, isC := core.Strip(st.Val).(*ssa.Call)
								if !isC || sv.Common().StaticCallee() == nil || sv.Common().StaticCallee().String() != "reflect.New" {
									all = false
								}
							}
						}
						if all && cnt > 0 {
							continue
						}
					}
				}
				why = valDesc(v)
			}
			r.Check(why == "", rule, core.FuncName(fn), "reflected-decode-target<-reflect.New", p.InstrPos(c), "the decode target is a zero value made by reflect.New in this call", "stored bytes are decoded into "+why+", not a value made by reflect.New for this call: encoding/json leaves members the text does not mention as they are, so the decoded value inherits them from the previous use of the target - a mutation's before-value (and with it the index entries removed) is then wrong")
		}
	}
	if n == 0 {
		r.Unres(rule, rel+".<reflected-decode>", "no json.Unmarshal into a reflect.Value's Interface() found")
	}
}

// c14KeysAreFreshSlices is C14.N8 (shared as C13.K11): the key argument of
// every Txn.Set / Txn.Delete in the query store and index code, followed into
// the key builders of the package, is rooted in make / a conversion / nil in
// the function that builds it - not in a slice parameter.
func c14KeysAreFreshSlices(r *core.Run, rule, rel string) {
	p := r.P
	busyPrm := map[*ssa.Parameter]bool{}
	var root func(v ssa.Value, d int) string // "" = fresh
	root = func(v ssa.Value, d int) string {
		if d > 8 {
			return "?"
		}
		switch x := core.Strip(v).(type) {
		case *ssa.MakeSlice, *ssa.Alloc, *ssa.Convert:
			return ""
		case *ssa.Const:
			return ""
		case *ssa.Slice:
			return root(x.X, d+1)
		case *ssa.Phi:
			for _, e := range x.Edges {
				if e == ssa.Value(x) {
					continue
				}
				if w := root(e, d+1); w != "" {
					return w
				}
			}
			return ""
		case *ssa.Call:
			if core.CalleeName(x) == "builtin:append" {
				return root(x.Call.Args[0], d+1)
			}
			if cal := x.Common().StaticCallee(); cal != nil && cal.Pkg != nil && cal.Pkg.Pkg.Path() != "" && len(cal.Blocks) > 0 && strings.HasSuffix(cal.Pkg.Pkg.Path(), rel) {
				for _, ret := range core.Returns(cal) {
					for _, rv := range ret.Results {
						if !isByteSlice(rv.Type()) {
							continue
						}
						if w := root(rv, d+1); w != "" {
							return w
						}
					}
				}
				return ""
			}
			return ""
		case *ssa.Parameter:
			if !isByteSlice(x.Type()) {
				return ""
			}
			// a helper handed the key: what its call sites pass; a parameter met again on the way is
			// a buffer carried from one key to the next
			if busyPrm[x] {
				return "the buffer parameter " + x.Name() + " of " + core.FuncName(x.Parent()) + ", reused from one key to the next"
			}
			as := paramArgs(p, x, 0)
			if len(as) == 0 || (len(as) == 1 && as[0] == ssa.Value(x)) {
				return "the slice parameter " + x.Name() + " of " + core.FuncName(x.Parent())
			}
			busyPrm[x] = true
			defer delete(busyPrm, x)
			for _, a := range as {
				if w := root(a, d+1); w != "" {
					return w
				}
			}
			return ""
		case *ssa.UnOp:
			if x.Op == token.MUL {
				// a local variable cell: every value stored into it
				if al, ok := x.X.(*ssa.Alloc); ok && al.Referrers() != nil {
					for _, rf := range *al.Referrers() {
						if st, ok := rf.(*ssa.Store); ok && st.Addr == ssa.Value(al) {
							if w := root(st.Val, d+1); w != "" {
								return w
							}
						}
					}
					return ""
				}
				if f, ok := core.LoadedField(x); ok {
					return "the member " + f.String()
				}
			}
			return ""
		}
		return ""
	}
	n := 0
	for _, fn := range p.FuncsOfPkg(rel) {
		// the index code: everything in the package but the value store's own methods
		inQS := true
		if o := core.Outermost(fn); o.Signature.Recv() != nil {
			tn := core.TypeName(o.Signature.Recv().Type())
			if strings.HasSuffix(tn, ".Store") || strings.HasSuffix(tn, "writeTxn") || strings.HasSuffix(tn, "readTxn") {
				inQS = false
			}
		}
		if !inQS {
			continue
		}
		for _, c := range core.Calls(fn) {
			if !(isBadgerCall(c, "Txn", "Set") || isBadgerCall(c, "Txn", "Delete")) || len(c.Common().Args) < 2 {
				continue
			}
			n++
			w := root(c.Common().Args[1], 0)
			r.Check(w == "", rule, core.FuncName(fn), "written-key-is-a-fresh-slice:"+c.Common().StaticCallee().Name(), p.InstrPos(c), "the key is built in memory of its own", "the key handed to the transaction is backed by "+w+": the transaction keeps the slice until it commits, and the next key built in the same buffer overwrites it - the pending delete (or set) then applies to the wrong index entry")
		}
	}
	if n == 0 {
		r.Unres(rule, rel+".<index-writes>", "no Txn.Set / Txn.Delete in the query store and index code")
	}
}

// c13NegativeLimitIsUnlimited: in the index scan a negative limit becomes
// max-int (C13.W1; shared as C12.T8).
func c13NegativeLimitIsUnlimited(fc *ssa.Function) bool {
	negOK := false
	for _, b := range fc.Blocks {
		for _, in := range b.Instrs {
			if phi, ok := in.(*ssa.Phi); ok {
				for _, e := range phi.Edges {
					if c, ok := core.ConstInt(e); ok && c == int64(^uint(0)>>1) {
						negOK = true
					}
				}
			}
		}
	}
	// the limit variable may live in a cell (captured by the closure)
	for _, b := range fc.Blocks {
		for _, in := range b.Instrs {
			if st, ok := in.(*ssa.Store); ok {
				if c, ok := core.ConstInt(st.Val); ok && c == int64(^uint(0)>>1) {
					for _, ed := range dominatingEdges(st) {
						if strings.HasSuffix(describeCond(ed), "<0") {
							negOK = true
						}
					}
				}
			}
		}
	}
	return negOK
}

// c13KeyNonNilAt: the index key value is known non-nil where `at` executes -
// by a dominating edge there, or, when the value is a parameter of a private
// helper (setEntry(txn, idx, rname, key)), at every call site of the helper.
func c13KeyNonNilAt(p *core.Prog, keyVal ssa.Value, at ssa.Instruction, d int) bool {
	if keyVal == nil || d > 3 {
		return false
	}
	for _, ed := range dominatingEdges(at) {
		ci := core.Cond(ed.If.Cond)
		if ci.Kind == "nilcmp" && ci.X == keyVal {
			truth := ed.Succ == 0
			if ci.Negate {
				truth = !truth
			}
			if (ci.Op == token.NEQ) == truth {
				return true
			}
		}
	}
	prm, ok := keyVal.(*ssa.Parameter)
	if !ok || !p.IsPrivateHelper(prm.Parent()) {
		return false
	}
	pi := -1
	for i, q := range prm.Parent().Params {
		if q == prm {
			pi = i
		}
	}
	cs := p.CallersOf(prm.Parent())
	if len(cs) == 0 || pi < 0 {
		return false
	}
	for _, c := range cs {
		if pi >= len(c.Common().Args) || !c13KeyNonNilAt(p, c.Common().Args[pi], c, d+1) {
			return false
		}
	}
	return true
}

// valueOrigin follows a value back through loads of single-assignment
// variables (also captured ones) and through parameters of private helpers
// with one call site.
func valueOrigin(p *core.Prog, v ssa.Value, depth int) ssa.Value {
	for ; depth < 8; depth++ {
		v = core.Strip(v)
		if u, ok := v.(*ssa.UnOp); ok && u.Op == token.MUL {
			cell := cellOf(u)
			al, ok := cell.(*ssa.Alloc)
			if !ok || al.Referrers() == nil {
				return v
			}
			var stored []ssa.Value
			for _, f := range withAnon(al.Parent()) { // closures write the variable through their free variables
				for _, b := range f.Blocks {
					for _, in := range b.Instrs {
						if st, ok := in.(*ssa.Store); ok && (st.Addr == ssa.Value(al) || f != al.Parent() && cellOfAddr(st.Addr) == ssa.Value(al)) {
							stored = append(stored, st.Val)
						}
					}
				}
			}
			if len(stored) != 1 {
				return v
			}
			v = stored[0]
			continue
		}
		if prm, ok := v.(*ssa.Parameter); ok {
			as := paramArgs(p, prm, 0)
			if len(as) != 1 || as[0] == v {
				return v
			}
			v = as[0]
			continue
		}
		// the result of a private helper that hands on one value (next to nil / zero results on its
		// error returns): dta, err := encode(value)
		var call *ssa.Call
		idx := 0
		if ex, ok := v.(*ssa.Extract); ok {
			call, _ = ex.Tuple.(*ssa.Call)
			idx = ex.Index
		} else if c, ok := v.(*ssa.Call); ok {
			call = c
		}
		if call != nil {
			if cal := call.Common().StaticCallee(); cal != nil && p.IsPrivateHelper(cal) {
				var only ssa.Value
				n := 0
				for _, ret := range core.Returns(cal) {
					if idx >= len(ret.Results) {
						continue
					}
					for _, src := range phiSources(ret.Results[idx]) {
						if _, isConst := src.V.(*ssa.Const); isConst {
							continue
						}
						if only == nil || core.Strip(only) != core.Strip(src.V) {
							n++
						}
						only = src.V
					}
				}
				if n == 1 {
					v = only
					continue
				}
			}
		}
		return v
	}
	return v
}

// lenOrigin: v is (a variable holding) len(x); returns the origin of x.
func lenOrigin(p *core.Prog, v ssa.Value) (ssa.Value, bool) {
	o := valueOrigin(p, v, 0)
	c, ok := o.(*ssa.Call)
	if !ok || core.CalleeName(c) != "builtin:len" {
		return nil, false
	}
	return valueOrigin(p, c.Call.Args[0], 0), true
}

// cellOfAddr resolves an address operand (no load is stripped) to the variable
// it denotes: a free variable is followed to the cell it is bound to.
func cellOfAddr(v ssa.Value) ssa.Value {
	for i := 0; i < 8; i++ {
		fv, ok := v.(*ssa.FreeVar)
		if !ok {
			return v
		}
		b := core.BindingOf(fv)
		if b == nil {
			return v
		}
		v = b
	}
	return v
}

// c13ScanStateFields: members of the scan's own structs that are initialised
// from the query's offset, limit or key filter (window{skip: iq.Offset, ...}).
func c13ScanStateFields(p *core.Prog) map[core.Field]string {
	out := map[core.Field]string{}
	for _, g := range p.FuncsOfPkg("store/badgerstore") {
		for _, b := range g.Blocks {
			for _, in := range b.Instrs {
				if st, ok := in.(*ssa.Store); ok {
					if f, ok := core.FieldOf(st.Addr); ok && !strings.HasSuffix(f.Struct, "IndexQuery") {
						if derivesFromField(st.Val, "IndexQuery", "Offset") {
							out[f] = "offset"
						} else if derivesFromField(st.Val, "IndexQuery", "Limit") {
							out[f] = "limit"
						} else if derivesFromField(st.Val, "IndexQuery", "FilterKeys") {
							out[f] = "filter"
						}
					}
				}
			}
		}
	}
	return out
}
