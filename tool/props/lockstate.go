package props

import (
	"fmt"
	"go/types"
	"sort"

	"golang.org/x/tools/go/ssa"

	"resverif/core"
)

// E1 lockstate: forward dataflow of {Free, Held} for one lock class
// (struct type, field), inter-procedural over the static call graph of the
// root package with per-function entry states inferred from call sites.

const (
	lkFree = 0
	lkHeld = 1
)

type lockEngine struct {
	p       *core.Prog
	mu      core.Field // e.g. Service.mu
	cond    core.Field // e.g. Service.workcond (sync.Cond whose L is &mu)
	fns     []*ssa.Function
	touches map[*ssa.Function]bool          // contains Lock/Unlock/Wait on mu, transitively through static calls
	entry   map[*ssa.Function]core.StateSet // inferred entry states
	exit    map[*ssa.Function]core.StateSet
	release map[*ssa.Function]bool // may release the lock during a call (Unlock or Wait inside)
	res     map[*ssa.Function]*core.FlowResult
	roots   map[*ssa.Function]string // why a function may be entered in state Free
	errs    []string
}

// lockOp classifies a call instruction w.r.t. the lock class.
func (e *lockEngine) lockOp(c ssa.CallInstruction) string {
	cc := c.Common()
	callee := cc.StaticCallee()
	if callee == nil || len(cc.Args) == 0 {
		return ""
	}
	f, ok := core.FieldOf(cc.Args[0])
	if !ok {
		return ""
	}
	switch callee.String() {
	case "(*sync.Mutex).Lock":
		if f == e.mu {
			return "lock"
		}
	case "(*sync.Mutex).Unlock":
		if f == e.mu {
			return "unlock"
		}
	case "(*sync.Cond).Wait":
		if f == e.cond {
			return "wait"
		}
	case "(*sync.Cond).Signal":
		if f == e.cond {
			return "signal"
		}
	case "(*sync.Cond).Broadcast":
		if f == e.cond {
			return "broadcast"
		}
	}
	return ""
}

func newLockEngine(p *core.Prog, fns []*ssa.Function, mu, cond core.Field) *lockEngine {
	e := &lockEngine{p: p, mu: mu, cond: cond, fns: fns,
		touches: map[*ssa.Function]bool{}, entry: map[*ssa.Function]core.StateSet{}, exit: map[*ssa.Function]core.StateSet{},
		release: map[*ssa.Function]bool{}, res: map[*ssa.Function]*core.FlowResult{}, roots: map[*ssa.Function]string{}}
	// touches / release: direct, then transitive
	for _, fn := range fns {
		for _, c := range core.Calls(fn) {
			switch e.lockOp(c) {
			case "lock":
				e.touches[fn] = true
			case "unlock", "wait":
				e.touches[fn] = true
				e.release[fn] = true
			}
		}
	}
	for changed := true; changed; {
		changed = false
		for _, fn := range fns {
			for _, c := range core.Calls(fn) {
				if core.IsGo(c) {
					continue
				}
				cal := c.Common().StaticCallee()
				if cal == nil {
					continue
				}
				if e.touches[cal] && !e.touches[fn] {
					e.touches[fn] = true
					changed = true
				}
				if e.release[cal] && !e.release[fn] {
					e.release[fn] = true
					changed = true
				}
			}
		}
	}
	return e
}

// isRelease: the instruction may release the lock (Unlock, Wait, a call to a
// function that may release, RunDefers with a deferred Unlock).
func (e *lockEngine) isRelease(in ssa.Instruction) bool {
	switch in := in.(type) {
	case *ssa.Call:
		op := e.lockOp(in)
		if op == "unlock" || op == "wait" {
			return true
		}
		if cal := in.Common().StaticCallee(); cal != nil && e.release[cal] {
			return true
		}
	case *ssa.RunDefers:
		for _, d := range deferredIn(in.Parent()) {
			if e.lockOp(d) == "unlock" {
				return true
			}
		}
	}
	return false
}

func deferredIn(fn *ssa.Function) []*ssa.Defer {
	var out []*ssa.Defer
	for _, b := range fn.Blocks {
		for _, in := range b.Instrs {
			if d, ok := in.(*ssa.Defer); ok {
				out = append(out, d)
			}
		}
	}
	return out
}

// solve runs the inter-procedural fix-point for the given set of functions.
// Functions that are exported, address-taken, started with go, or have no
// static caller in the analysed set are entered in state Free.
func (e *lockEngine) solve(analysed []*ssa.Function) {
	inSet := map[*ssa.Function]bool{}
	for _, f := range analysed {
		inSet[f] = true
	}
	// static callers
	callers := map[*ssa.Function]int{}
	addrTaken := map[*ssa.Function]bool{}
	for _, fn := range e.fns {
		for _, b := range fn.Blocks {
			for _, in := range b.Instrs {
				if c, ok := in.(ssa.CallInstruction); ok {
					if cal := c.Common().StaticCallee(); cal != nil {
						if core.IsGo(c) {
							e.roots[cal] = "started with go"
						} else if !core.IsDefer(c) {
							callers[cal]++
						}
					}
					for _, a := range c.Common().Args {
						if f, ok := a.(*ssa.Function); ok {
							addrTaken[f] = true
						}
						if mc, ok := a.(*ssa.MakeClosure); ok {
							if f, ok := mc.Fn.(*ssa.Function); ok {
								addrTaken[f] = true
							}
						}
					}
					continue
				}
				for _, op := range in.Operands(nil) {
					if op == nil || *op == nil {
						continue
					}
					if f, ok := (*op).(*ssa.Function); ok {
						addrTaken[f] = true
					}
				}
				if mc, ok := in.(*ssa.MakeClosure); ok {
					if f, ok := mc.Fn.(*ssa.Function); ok {
						addrTaken[f] = true
					}
				}
			}
		}
	}
	for _, f := range analysed {
		switch {
		case e.roots[f] != "":
		case f.Parent() == nil && f.Object() != nil && f.Object().Exported():
			e.roots[f] = "exported API"
		case addrTaken[f]:
			e.roots[f] = "function value (callback)"
		case callers[f] == 0:
			e.roots[f] = "no static caller"
		}
		if e.roots[f] != "" {
			e.entry[f] = e.entry[f].Add(lkFree)
		}
	}
	for iter := 0; iter < 50; iter++ {
		changed := false
		for _, fn := range analysed {
			ent := e.entry[fn]
			if ent.Empty() {
				continue
			}
			fl := &core.Flow{Fn: fn, Entry: ent}
			fl.Transfer = func(in ssa.Instruction, s int) core.StateSet {
				one := core.StateSet(0).Add(s)
				switch in := in.(type) {
				case *ssa.Call:
					switch e.lockOp(in) {
					case "lock":
						return core.StateSet(0).Add(lkHeld)
					case "unlock":
						return core.StateSet(0).Add(lkFree)
					case "wait":
						return core.StateSet(0).Add(lkHeld)
					}
					if cal := in.Common().StaticCallee(); cal != nil && inSet[cal] {
						old := e.entry[cal]
						if old|one != old {
							e.entry[cal] = old | one
							changed = true
						}
						if !e.touches[cal] {
							return one
						}
						// exit state of the callee for this entry: approximate by the callee's
						// exit set (entry-insensitive); precise enough because each touching
						// function here is entered in exactly one state.
						if ex := e.exit[cal]; !ex.Empty() {
							return ex
						}
						return 0 // not yet known: bottom, revisited next iteration
					}
				case *ssa.Go:
					if cal := in.Common().StaticCallee(); cal != nil && inSet[cal] {
						old := e.entry[cal]
						if !old.Has(lkFree) {
							e.entry[cal] = old.Add(lkFree)
							changed = true
						}
					}
				case *ssa.RunDefers:
					for _, d := range deferredIn(fn) {
						if e.lockOp(d) == "unlock" {
							return core.StateSet(0).Add(lkFree)
						}
					}
				}
				return one
			}
			res := fl.Run()
			e.res[fn] = res
			var ex core.StateSet
			for _, r := range core.Returns(fn) {
				if fn.Recover != nil && r.Block() == fn.Recover {
					continue
				}
				ex |= res.Before[r]
			}
			if ex != e.exit[fn] {
				e.exit[fn] = ex
				changed = true
			}
		}
		if !changed {
			break
		}
	}
}

// stateAt returns the lock state set before an instruction.
func (e *lockEngine) stateAt(in ssa.Instruction) core.StateSet {
	r := e.res[in.Parent()]
	if r == nil {
		return 0
	}
	return r.Before[in]
}

func lkStr(s core.StateSet) string {
	switch {
	case s.Empty():
		return "unreached"
	case s.Only(lkHeld):
		return "Held"
	case s.Only(lkFree):
		return "Free"
	}
	return "{Free,Held}"
}

// ---- role resolution for the service/work-queue anchors -------------------

type svcAnchors struct {
	S         string     // service struct name ("Service")
	Mu        core.Field // sync.Mutex field
	Cond      core.Field // sync.Cond field
	WG        core.Field // sync.WaitGroup field
	State     core.Field // int32 state field
	NC        core.Field // Conn field
	InCh      core.Field // chan *nats.Msg field
	RWork     core.Field // map[string]*W
	WorkQueue core.Field // []*W that is appended to
	WorkBuf   core.Field // other []*W
	W         string     // work item struct name
	WQueue    core.Field // []func() field of W
	WID       core.Field // string field of W
	WSvc      core.Field // *S field of W
	Enqueue   *ssa.Function
	Worker    *ssa.Function
	Drain     *ssa.Function
	Close     *ssa.Function
	Serve     *ssa.Function // the function that starts the workers with go
	ok        bool
}

func resolveSvc(r *core.Run, rule string) *svcAnchors {
	p := r.P
	a := &svcAnchors{}
	root := p.Pkgs[""]
	// S: the named struct embedding *Mux
	var sT *types.Named
	scope := root.Types.Scope()
	for _, n := range scope.Names() {
		tn, ok := scope.Lookup(n).(*types.TypeName)
		if !ok {
			continue
		}
		st, ok := tn.Type().Underlying().(*types.Struct)
		if !ok {
			continue
		}
		for i := 0; i < st.NumFields(); i++ {
			f := st.Field(i)
			if f.Embedded() && core.TypeName(f.Type()) == "Mux" {
				if sT != nil {
					r.Unres(rule, "service-type", "more than one struct embeds *Mux")
					return a
				}
				sT, _ = tn.Type().(*types.Named)
			}
		}
	}
	if sT == nil {
		r.Unres(rule, "service-type", "no struct embedding *Mux")
		return a
	}
	a.S = sT.Obj().Name()
	st := sT.Underlying().(*types.Struct)
	uniq := func(pred func(*types.Var) bool, what string) core.Field {
		var hit []string
		for i := 0; i < st.NumFields(); i++ {
			if pred(st.Field(i)) {
				hit = append(hit, st.Field(i).Name())
			}
		}
		if len(hit) != 1 {
			r.Unres(rule, what, fmt.Sprintf("%d candidate fields %v", len(hit), hit))
			return core.Field{}
		}
		return core.Field{Struct: a.S, Name: hit[0]}
	}
	isNamed := func(t types.Type, s string) bool { return types.TypeString(t, nil) == s }
	a.Mu = uniq(func(v *types.Var) bool { return isNamed(v.Type(), "sync.Mutex") }, "S.mu")
	a.Cond = uniq(func(v *types.Var) bool { return isNamed(v.Type(), "sync.Cond") }, "S.cond")
	a.WG = uniq(func(v *types.Var) bool { return isNamed(v.Type(), "sync.WaitGroup") }, "S.wg")
	isWord := func(t types.Type) bool { return isNamed(t, "int32") || isNamed(t, "sync/atomic.Int32") }
	// the state word: an int32 / atomic.Int32 member, or a member of a small struct type of the
	// package that wraps exactly one such word (type stateWord struct{ v int32 } with methods)
	wrapped := func(t types.Type) (core.Field, bool) {
		nt, ok := t.(*types.Named)
		if !ok || nt.Obj().Pkg() == nil || nt.Obj().Pkg() != root.Types {
			return core.Field{}, false
		}
		st, ok := nt.Underlying().(*types.Struct)
		if !ok || st.NumFields() != 1 || !isWord(st.Field(0).Type()) {
			return core.Field{}, false
		}
		return core.Field{Struct: nt.Obj().Name(), Name: st.Field(0).Name()}, true
	}
	isStateCand := func(v *types.Var) bool {
		if isWord(v.Type()) {
			return true
		}
		_, ok := wrapped(v.Type())
		return ok
	}
	// several word members (the state plus a flag added next to it): the state word is the one the
	// service's code reads and writes far more often than any other (at least twice as often)
	stateName := ""
	{
		type cnt struct {
			name string
			n    int
		}
		var cs []cnt
		for i := 0; i < st.NumFields(); i++ {
			if isStateCand(st.Field(i)) {
				f := core.Field{Struct: a.S, Name: st.Field(i).Name()}
				cs = append(cs, cnt{f.Name, len(core.FieldAccesses(p.FuncsOfPkg(""), func(g core.Field) bool { return g == f }))})
			}
		}
		if len(cs) > 1 {
			sort.Slice(cs, func(i, j int) bool { return cs[i].n > cs[j].n })
			if cs[0].n >= 2*cs[1].n && cs[0].n >= 4 {
				stateName = cs[0].name
			}
		}
	}
	a.State = uniq(func(v *types.Var) bool {
		if stateName != "" {
			return v.Name() == stateName
		}
		return isStateCand(v)
	}, "S.state")
	for i := 0; i < st.NumFields(); i++ {
		if st.Field(i).Name() == a.State.Name {
			if f, ok := wrapped(st.Field(i).Type()); ok {
				a.State = f
			}
		}
	}
	a.NC = uniq(func(v *types.Var) bool { return core.TypeName(v.Type()) == "Conn" }, "S.nc")
	a.InCh = uniq(func(v *types.Var) bool { _, ok := v.Type().Underlying().(*types.Chan); return ok }, "S.inCh")
	a.RWork = uniq(func(v *types.Var) bool {
		m, ok := v.Type().Underlying().(*types.Map)
		if !ok {
			return false
		}
		_, isPtr := m.Elem().(*types.Pointer)
		return isPtr && isNamed(m.Key(), "string")
	}, "S.rwork")
	if a.RWork.Name == "" {
		return a
	}
	// W
	for i := 0; i < st.NumFields(); i++ {
		if st.Field(i).Name() == a.RWork.Name {
			a.W = core.TypeName(st.Field(i).Type().Underlying().(*types.Map).Elem())
		}
	}
	wT := p.NamedType("", a.W)
	if wT == nil {
		r.Unres(rule, "W", "work item type not found")
		return a
	}
	wst := wT.Underlying().(*types.Struct)
	for i := 0; i < wst.NumFields(); i++ {
		f := wst.Field(i)
		switch t := f.Type().Underlying().(type) {
		case *types.Slice:
			if sig, ok := t.Elem().Underlying().(*types.Signature); ok && sig.Params().Len() == 0 && sig.Results().Len() == 0 {
				a.WQueue = core.Field{Struct: a.W, Name: f.Name()}
			}
		case *types.Basic:
			if t.Kind() == types.String {
				a.WID = core.Field{Struct: a.W, Name: f.Name()}
			}
		case *types.Pointer:
			if core.TypeName(t) == a.S {
				a.WSvc = core.Field{Struct: a.W, Name: f.Name()}
			}
		}
	}
	if a.WQueue.Name == "" || a.WID.Name == "" {
		r.Unres(rule, "W.queue/W.wid", "work item lacks a []func() or string field")
		return a
	}
	// []*W fields: workqueue is the one that is the destination of an append
	var sliceFields []string
	for i := 0; i < st.NumFields(); i++ {
		if sl, ok := st.Field(i).Type().Underlying().(*types.Slice); ok && core.TypeName(sl.Elem()) == a.W {
			sliceFields = append(sliceFields, st.Field(i).Name())
		}
	}
	rootFns := p.FuncsOfPkg("")
	appended := map[string]bool{}
	for _, fn := range rootFns {
		for _, b := range fn.Blocks {
			for _, in := range b.Instrs {
				st, ok := in.(*ssa.Store)
				if !ok {
					continue
				}
				f, ok := core.FieldOf(st.Addr)
				if !ok || f.Struct != a.S {
					continue
				}
				if c, ok := st.Val.(*ssa.Call); ok && core.CalleeName(c) == "builtin:append" {
					appended[f.Name] = true
				}
			}
		}
	}
	for _, n := range sliceFields {
		if appended[n] {
			if a.WorkQueue.Name != "" {
				r.Unres(rule, "S.workqueue", "two []*W fields are appended to")
				return a
			}
			a.WorkQueue = core.Field{Struct: a.S, Name: n}
		} else {
			a.WorkBuf = core.Field{Struct: a.S, Name: n}
		}
	}
	if a.WorkQueue.Name == "" {
		r.Unres(rule, "S.workqueue", "no []*W field that is appended to")
		return a
	}
	// functions by role
	one := func(what string, pred func(*ssa.Function) bool) *ssa.Function {
		var hit []*ssa.Function
		for _, fn := range rootFns {
			if fn.Parent() == nil && pred(fn) {
				hit = append(hit, fn)
			}
		}
		if len(hit) != 1 {
			var names []string
			for _, h := range hit {
				names = append(names, core.FuncName(h))
			}
			sort.Strings(names)
			r.Unres(rule, what, fmt.Sprintf("%d candidates %v", len(hit), names))
			return nil
		}
		return hit[0]
	}
	storesTo := func(fn *ssa.Function, f core.Field) bool {
		for _, b := range fn.Blocks {
			for _, in := range b.Instrs {
				if st, ok := in.(*ssa.Store); ok {
					if g, ok := core.FieldOf(st.Addr); ok && g == f {
						return true
					}
				}
			}
		}
		return false
	}
	// enqueue: the outermost unexported method of S that takes a func() and (itself or through its
	// private helpers) stores to the work queue
	scopeStores := func(fn *ssa.Function, f core.Field) bool {
		for _, h := range p.Helpers(fn) {
			if storesTo(h, f) {
				return true
			}
		}
		return false
	}
	isEnqCand := func(fn *ssa.Function) bool {
		hasCb := false
		for _, prm := range fn.Params {
			if sig, ok := prm.Type().Underlying().(*types.Signature); ok && sig.Params().Len() == 0 && sig.Results().Len() == 0 {
				hasCb = true
			}
		}
		return hasCb && fn.Parent() == nil && fn.Signature.Recv() != nil && core.TypeName(fn.Signature.Recv().Type()) == a.S && scopeStores(fn, a.WorkQueue)
	}
	a.Enqueue = one("enqueue", func(fn *ssa.Function) bool {
		if !isEnqCand(fn) || (fn.Object() != nil && fn.Object().Exported()) {
			return false
		}
		// the outermost unexported candidate: the entry point the API methods submit through (its
		// private helpers - the critical section, the registration - are analysed as part of it)
		for _, g := range rootFns {
			if g == fn || g.Parent() != nil || !isEnqCand(g) || (g.Object() != nil && g.Object().Exported()) {
				continue
			}
			for _, h := range p.Helpers(g) {
				if h == fn {
					return false
				}
			}
		}
		return true
	})
	// workerLoop: the function started with go whose body (with its private helpers) waits on the
	// service condition
	waitsOnCond := func(fn *ssa.Function) bool {
		for _, h := range p.Helpers(fn) {
			for _, c := range core.Calls(h) {
				if cal := c.Common().StaticCallee(); cal != nil && cal.String() == "(*sync.Cond).Wait" {
					if f, ok := core.FieldOf(c.Common().Args[0]); ok && f == a.Cond {
						return true
					}
				}
			}
		}
		return false
	}
	goStarted := map[*ssa.Function]bool{}
	for _, fn := range rootFns {
		for _, c := range core.Calls(fn) {
			if core.IsGo(c) && c.Common().StaticCallee() != nil {
				goStarted[c.Common().StaticCallee()] = true
			}
		}
	}
	a.Worker = one("workerLoop", func(fn *ssa.Function) bool { return goStarted[fn] && waitsOnCond(fn) })
	// drain: the function that takes a callback out of a work item's queue (by index) and calls it,
	// directly or through a private helper that calls its parameter
	callsParam := func(h *ssa.Function, i int) bool {
		if h == nil || i >= len(h.Params) {
			return false
		}
		for _, c := range core.Calls(h) {
			if core.IsDynamic(c) && c.Common().Value == ssa.Value(h.Params[i]) {
				return true
			}
		}
		return false
	}
	a.Drain = one("drain", func(fn *ssa.Function) bool {
		for _, c := range core.Calls(fn) {
			if core.IsDynamic(c) && isQueueElem(c.Common().Value, a.WQueue) {
				return true
			}
			if cal := c.Common().StaticCallee(); cal != nil && p.IsPrivateHelper(cal) {
				for i, arg := range c.Common().Args {
					if isQueueElem(arg, a.WQueue) && callsParam(cal, i) {
						return true
					}
				}
			}
		}
		return false
	})
	// closeFn: the method that closes the service connection (a private helper of Shutdown, or Shutdown itself)
	a.Close = one("closeFn", func(fn *ssa.Function) bool {
		if fn.Object() == nil {
			return false
		}
		for _, f2 := range withAnon(fn) { // also inside a closure of the method (a once-guard, a deferred func)
			for _, c := range core.Calls(f2) {
				cc := c.Common()
				if cc.IsInvoke() && cc.Method.Name() == "Close" {
					if f, ok := core.LoadedField(cc.Value); ok && f == a.NC {
						return true
					}
				}
			}
		}
		return false
	})
	// serve: the innermost function that, itself or through its private helpers, both starts the
	// workers with go and writes the state word (the run's initialisation; the go loop may sit in
	// a startWorkers helper)
	isServeCand := func(fn *ssa.Function) bool {
		starts, writes := false, false
		for _, h := range p.Helpers(fn) {
			for _, c := range core.Calls(h) {
				if core.IsGo(c) && a.Worker != nil && c.Common().StaticCallee() == a.Worker {
					starts = true
				}
				if !core.IsGo(c) && len(c.Common().Args) > 0 {
					if f, ok := core.FieldOf(c.Common().Args[0]); ok && f == a.State {
						writes = true
					}
				}
			}
			if storesTo(h, a.State) {
				writes = true
			}
		}
		return starts && writes
	}
	a.Serve = one("serve(starts workers)", func(fn *ssa.Function) bool {
		if !isServeCand(fn) {
			return false
		}
		for _, h := range p.Helpers(fn) {
			if h != fn && isServeCand(h) {
				return false
			}
		}
		return true
	})
	a.ok = a.Enqueue != nil && a.Worker != nil && a.Drain != nil && a.Close != nil && a.Serve != nil &&
		a.Mu.Name != "" && a.Cond.Name != "" && a.WG.Name != "" && a.State.Name != "" && a.NC.Name != "" && a.InCh.Name != ""
	return a
}

// isQueueElem: v is a load of an element (IndexAddr) of a loaded W.queue slice.
func isQueueElem(v ssa.Value, wq core.Field) bool {
	u, ok := v.(*ssa.UnOp)
	if !ok {
		return false
	}
	ia, ok := u.X.(*ssa.IndexAddr)
	if !ok {
		return false
	}
	f, ok := core.LoadedField(ia.X)
	return ok && f == wq
}

// label names a field of the service by its role where it has one, so that
// obligation keys (and the known findings that refer to them) survive a
// rename of the unexported field.
func (a *svcAnchors) label(f core.Field) string {
	switch f {
	case a.NC:
		return a.S + ".<conn>"
	case a.InCh:
		return a.S + ".<in-channel>"
	case a.RWork:
		return a.S + ".<registry>"
	case a.WorkQueue:
		return a.S + ".<work-queue>"
	case a.WorkBuf:
		return a.S + ".<work-buffer>"
	}
	return f.String()
}
