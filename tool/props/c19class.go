package props

import (
	"fmt"
	"go/constant"
	"go/token"
	"go/types"
	"unicode"

	"golang.org/x/tools/go/ssa"

	"resverif/core"
)

// A small abstract interpreter for one question about SendRequest's wait
// loop: given the first byte of a received message (or an empty message), does
// control reach ParseResponse before anything else happens to the message?
// It walks the SSA control-flow graph from the select with concrete integer
// values for the select index, len(msg.Data) and msg.Data[0], descends into
// functions of the package that are handed the message or its data, and
// evaluates the pure predicates of package unicode with the real functions
// (standard library, not code of the repository). The walk stops at the first
// call it cannot evaluate: by then the message was not handed to ParseResponse,
// i.e. it was taken for a pre-response.

type cvKind int

const (
	cvUnknown cvKind = iota
	cvInt            // integers and bools (0 / 1)
	cvMsg            // the received message
	cvData           // its Data member
)

type cval struct {
	k cvKind
	i int64
}

type c19interp struct {
	pkg     *ssa.Package
	n       int   // len(msg.Data)
	b       int64 // msg.Data[0] when n > 0
	reached bool  // ParseResponse was called with the data
	steps   int
}

const (
	c19Reached = iota
	c19Stopped
	c19Undecided
)

// run interprets fn from block `start` (entered from `prev`) with the given
// environment. It returns the function's first result when the function
// returns (ok), or the way the walk ended.
func (it *c19interp) run(fn *ssa.Function, start, prev *ssa.BasicBlock, env map[ssa.Value]cval, from ssa.Instruction, depth int) (ret cval, how int, returned bool) {
	b := start
	skipping := from != nil
	for {
		it.steps++
		if it.steps > 20000 || depth > 4 {
			return cval{}, c19Undecided, false
		}
		for _, in := range b.Instrs {
			if skipping {
				if in == from {
					skipping = false
				}
				continue
			}
			switch x := in.(type) {
			case *ssa.Phi:
				for i, p := range b.Preds {
					if p == prev {
						env[x] = it.val(x.Edges[i], env)
					}
				}
			case *ssa.DebugRef:
			case *ssa.If:
				c := it.val(x.Cond, env)
				if c.k != cvInt {
					return cval{}, c19Undecided, false
				}
				prev = b
				if c.i != 0 {
					b = b.Succs[0]
				} else {
					b = b.Succs[1]
				}
				goto next
			case *ssa.Jump:
				prev = b
				b = b.Succs[0]
				goto next
			case *ssa.Return:
				if len(x.Results) > 0 {
					return it.val(x.Results[0], env), 0, true
				}
				return cval{}, 0, true
			case *ssa.Panic:
				return cval{}, c19Stopped, false
			case *ssa.Call:
				v, how, ok := it.call(x, env, depth)
				if !ok {
					return cval{}, how, false
				}
				env[x] = v
			case ssa.Value:
				env[x] = it.val(x, env)
			case *ssa.Store, *ssa.MapUpdate, *ssa.Send, *ssa.Go, *ssa.Defer, *ssa.RunDefers:
				return cval{}, c19Stopped, false
			default:
				return cval{}, c19Stopped, false
			}
		}
		return cval{}, c19Stopped, false
	next:
		if b == start && depth == 0 {
			return cval{}, c19Stopped, false // back at the loop head
		}
	}
}

// call evaluates a call instruction: len, the unicode predicates, a function
// of the package handed the message / its data / integers, ParseResponse.
func (it *c19interp) call(x *ssa.Call, env map[ssa.Value]cval, depth int) (cval, int, bool) {
	if core.CalleeName(x) == "builtin:len" && len(x.Call.Args) == 1 {
		if it.val(x.Call.Args[0], env).k == cvData {
			return cval{cvInt, int64(it.n)}, 0, true
		}
		return cval{}, c19Stopped, false
	}
	cal := x.Common().StaticCallee()
	if cal == nil {
		return cval{}, c19Stopped, false
	}
	if cal.Pkg != nil && cal.Pkg.Pkg.Path() == "unicode" && len(x.Call.Args) == 1 {
		a := it.val(x.Call.Args[0], env)
		if a.k != cvInt {
			return cval{}, c19Undecided, false
		}
		var f func(rune) bool
		switch cal.Name() {
		case "IsLetter":
			f = unicode.IsLetter
		case "IsUpper":
			f = unicode.IsUpper
		case "IsLower":
			f = unicode.IsLower
		case "IsDigit":
			f = unicode.IsDigit
		case "IsSpace":
			f = unicode.IsSpace
		case "IsPrint":
			f = unicode.IsPrint
		case "IsControl":
			f = unicode.IsControl
		}
		if f == nil {
			return cval{}, c19Undecided, false
		}
		if f(rune(a.i)) {
			return cval{cvInt, 1}, 0, true
		}
		return cval{cvInt, 0}, 0, true
	}
	if cal.Pkg != it.pkg || len(cal.Blocks) == 0 {
		return cval{}, c19Stopped, false
	}
	if cal.Name() == "ParseResponse" {
		if len(x.Call.Args) == 1 && it.val(x.Call.Args[0], env).k == cvData {
			it.reached = true
			return cval{}, c19Reached, false
		}
		return cval{}, c19Stopped, false
	}
	env2 := map[ssa.Value]cval{}
	handed := false
	for i, a := range x.Call.Args {
		if i >= len(cal.Params) {
			break
		}
		v := it.val(a, env)
		env2[cal.Params[i]] = v
		if v.k == cvMsg || v.k == cvData {
			handed = true
		}
	}
	if !handed {
		return cval{}, c19Stopped, false
	}
	ret, how, returned := it.run(cal, cal.Blocks[0], nil, env2, nil, depth+1)
	if !returned {
		return cval{}, how, false
	}
	return ret, 0, true
}

// val evaluates a value in the environment.
func (it *c19interp) val(v ssa.Value, env map[ssa.Value]cval) cval {
	if c, ok := env[v]; ok {
		return c
	}
	switch x := v.(type) {
	case *ssa.Const:
		if x.Value == nil {
			return cval{}
		}
		switch x.Value.Kind() {
		case constant.Int:
			if i, ok := constant.Int64Val(x.Value); ok {
				return cval{cvInt, i}
			}
		case constant.Bool:
			if constant.BoolVal(x.Value) {
				return cval{cvInt, 1}
			}
			return cval{cvInt, 0}
		}
	case *ssa.Convert:
		c := it.val(x.X, env)
		if c.k == cvInt {
			if bt, ok := x.Type().Underlying().(*types.Basic); ok {
				switch bt.Kind() {
				case types.Uint8:
					c.i &= 0xff
				case types.Int8:
					c.i = int64(int8(c.i))
				}
			}
			return c
		}
		return cval{}
	case *ssa.ChangeType:
		return it.val(x.X, env)
	case *ssa.UnOp:
		switch x.Op {
		case token.NOT:
			c := it.val(x.X, env)
			if c.k == cvInt {
				return cval{cvInt, 1 - c.i}
			}
		case token.SUB:
			c := it.val(x.X, env)
			if c.k == cvInt {
				return cval{cvInt, -c.i}
			}
		case token.MUL:
			switch a := x.X.(type) {
			case *ssa.FieldAddr:
				if it.val(a.X, env).k == cvMsg {
					if f, ok := core.FieldOf(a); ok && f.Name == "Data" {
						return cval{cvData, 0}
					}
				}
			case *ssa.IndexAddr:
				if it.val(a.X, env).k == cvData {
					if idx := it.val(a.Index, env); idx.k == cvInt && idx.i == 0 && it.n > 0 {
						return cval{cvInt, it.b}
					}
				}
			}
		}
		return cval{}
	case *ssa.Extract:
		if sel, ok := x.Tuple.(*ssa.Select); ok {
			return env[selKey{sel, x.Index}.value()]
		}
		return cval{}
	case *ssa.BinOp:
		a, b := it.val(x.X, env), it.val(x.Y, env)
		if a.k != cvInt || b.k != cvInt {
			return cval{}
		}
		bo := func(t bool) cval {
			if t {
				return cval{cvInt, 1}
			}
			return cval{cvInt, 0}
		}
		switch x.Op {
		case token.ADD:
			return cval{cvInt, a.i + b.i}
		case token.SUB:
			return cval{cvInt, a.i - b.i}
		case token.OR:
			return cval{cvInt, a.i | b.i}
		case token.AND:
			return cval{cvInt, a.i & b.i}
		case token.XOR:
			return cval{cvInt, a.i ^ b.i}
		case token.AND_NOT:
			return cval{cvInt, a.i &^ b.i}
		case token.EQL:
			return bo(a.i == b.i)
		case token.NEQ:
			return bo(a.i != b.i)
		case token.LSS:
			return bo(a.i < b.i)
		case token.LEQ:
			return bo(a.i <= b.i)
		case token.GTR:
			return bo(a.i > b.i)
		case token.GEQ:
			return bo(a.i >= b.i)
		}
	}
	return cval{}
}

// selKey names the i-th result of a select in the environment (the Extracts
// of one select are distinct values; the environment is keyed by a stand-in).
type selKey struct {
	sel *ssa.Select
	idx int
}

var selStandIns = map[selKey]*ssa.Const{}

func (k selKey) value() ssa.Value {
	if c, ok := selStandIns[k]; ok {
		return c
	}
	c := &ssa.Const{}
	selStandIns[k] = c
	return c
}

// c19ClassifiesByAsciiLetter is the obligation of C19.T1 that decides the
// classification itself: for an empty message and for every value of the first
// byte, the message reaches ParseResponse exactly when that byte is not an
// ASCII letter.
func c19ClassifiesByAsciiLetter(r *core.Run, wf *ssa.Function, sel *ssa.Select, fname string) {
	p := r.P
	arm := -1
	for i, st := range sel.States {
		if st.Dir == types.RecvOnly {
			if ch, ok := st.Chan.Type().Underlying().(*types.Chan); ok {
				if pt, ok := ch.Elem().Underlying().(*types.Pointer); ok {
					if nt, ok := pt.Elem().(*types.Named); ok && nt.Obj().Name() == "Msg" {
						arm = i
					}
				}
			}
		}
	}
	if arm < 0 {
		r.Unres("T1", fname+".<inbox-arm>", "the wait loop's select has no receive of a message")
		return
	}
	// position of the received value among the select's results: index, recvOk, then one per receive state
	recvPos := 2
	for i := 0; i < arm; i++ {
		if sel.States[i].Dir == types.RecvOnly {
			recvPos++
		}
	}
	classify := func(n int, b int64) int {
		it := &c19interp{pkg: wf.Pkg, n: n, b: b}
		env := map[ssa.Value]cval{
			selKey{sel, 0}.value():       {cvInt, int64(arm)},
			selKey{sel, 1}.value():       {cvInt, 1},
			selKey{sel, recvPos}.value(): {cvMsg, 0},
		}
		_, how, returned := it.run(wf, sel.Block(), nil, env, sel, 0)
		if it.reached {
			return c19Reached
		}
		if returned {
			return c19Stopped
		}
		return how
	}
	bad, undecided := "", ""
	if got := classify(0, 0); got != c19Reached {
		if got == c19Undecided {
			undecided = "an empty message"
		} else {
			bad = "an empty message is not handed to ParseResponse"
		}
	}
	for b := int64(0); b < 256 && bad == ""; b++ {
		letter := (b >= 'a' && b <= 'z') || (b >= 'A' && b <= 'Z')
		got := classify(1, b)
		switch {
		case got == c19Undecided:
			undecided = fmt.Sprintf("first byte %#x", b)
		case letter && got == c19Reached:
			bad = fmt.Sprintf("a message starting with the letter %q is parsed as the response", rune(b))
		case !letter && got != c19Reached:
			bad = fmt.Sprintf("a message starting with byte %#x (not an ASCII letter) is taken for a pre-response: it is skipped, a later message is returned in its place or the request times out", b)
		}
	}
	if bad == "" && undecided != "" {
		r.Unres("T1", fname+"/pre-response-classification", "the walk from the receive to ParseResponse meets a branch it cannot evaluate ("+undecided+")")
		return
	}
	r.Check(bad == "", "T1", fname, "pre-response<=>first-byte-is-an-ASCII-letter", p.InstrPos(sel), "evaluated for the empty message and all 256 first bytes: ParseResponse is reached exactly when the first byte is not in A-Z / a-z", "the first message that is not a pre-response is not always the one returned: "+bad)
}
