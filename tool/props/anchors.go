package props

import (
	"go/token"
	"go/types"
	"sort"
	"strings"

	"golang.org/x/tools/go/ssa"

	"resverif/core"
)

// methodsOf returns the declared (non-synthetic) methods with receiver *T or T
// of a named type in package rel, sorted by name.
func methodsOf(p *core.Prog, rel, tname string) []*ssa.Function {
	var out []*ssa.Function
	for _, f := range p.Funcs {
		if f.Parent() != nil || f.Signature.Recv() == nil {
			continue
		}
		if core.TypeName(f.Signature.Recv().Type()) == qual(rel, tname) {
			out = append(out, f)
		}
	}
	sort.Slice(out, func(i, j int) bool { return out[i].Name() < out[j].Name() })
	return out
}

func qual(rel, name string) string {
	if rel == "" {
		return name
	}
	return rel + "." + name
}

// withAnon returns fn and all anonymous functions nested in it.
func withAnon(fn *ssa.Function) []*ssa.Function {
	out := []*ssa.Function{fn}
	for _, a := range fn.AnonFuncs {
		out = append(out, withAnon(a)...)
	}
	return out
}

// recvIsParam reports whether v denotes the receiver (first parameter) of fn,
// possibly through the spill cell go/ssa creates for captured/addressed
// receivers, or through a free variable of a nested closure bound to it.
func derivesFromRecv(v ssa.Value, depth int) bool {
	if depth > 8 {
		return false
	}
	v = core.Strip(v)
	switch x := v.(type) {
	case *ssa.Parameter:
		fn := x.Parent()
		return fn.Signature.Recv() != nil && len(fn.Params) > 0 && fn.Params[0] == x
	case *ssa.UnOp:
		if x.Op == token.MUL {
			return derivesFromRecvCell(x.X, depth+1)
		}
	case *ssa.FieldAddr:
		// embedded struct of the receiver (r.resource)
		return derivesFromRecv(x.X, depth+1)
	}
	return false
}

func derivesFromRecvCell(v ssa.Value, depth int) bool {
	switch x := v.(type) {
	case *ssa.Alloc:
		// cell: find the store of the receiver into it
		if refs := x.Referrers(); refs != nil {
			for _, r := range *refs {
				if st, ok := r.(*ssa.Store); ok && st.Addr == x {
					if derivesFromRecv(st.Val, depth+1) {
						return true
					}
				}
			}
		}
	case *ssa.FreeVar:
		if b := core.BindingOf(x); b != nil {
			return derivesFromRecvCell(b, depth+1)
		}
	}
	return false
}

// isConstBool reports whether v is the boolean constant b.
func isConstBool(v ssa.Value, b bool) bool {
	c, ok := v.(*ssa.Const)
	if !ok || c.Value == nil {
		return false
	}
	if bt, ok := c.Type().Underlying().(*types.Basic); !ok || bt.Info()&types.IsBoolean == 0 {
		return false
	}
	return c.Value.String() == map[bool]string{true: "true", false: "false"}[b]
}

// flagOf resolves, for a request struct type, the "replied" role: the unique
// bool field F such that some method of *T stores the constant true into
// recv.F. Returns the field and the methods that store to it.
func flagOf(p *core.Prog, rel, tname string) (core.Field, []*ssa.Function, bool) {
	type hit struct {
		f  core.Field
		fn *ssa.Function
	}
	var hits []hit
	for _, m := range methodsOf(p, rel, tname) {
		for _, fn := range withAnon(m) {
			for _, b := range fn.Blocks {
				for _, in := range b.Instrs {
					st, ok := in.(*ssa.Store)
					if !ok || !isConstBool(st.Val, true) {
						continue
					}
					f, ok := core.FieldOf(st.Addr)
					if !ok || f.Struct != qual(rel, tname) {
						continue
					}
					hits = append(hits, hit{f, m})
				}
			}
		}
	}
	fields := map[core.Field][]*ssa.Function{}
	for _, h := range hits {
		dup := false
		for _, x := range fields[h.f] {
			if x == h.fn {
				dup = true
			}
		}
		if !dup {
			fields[h.f] = append(fields[h.f], h.fn)
		}
	}
	if len(fields) > 1 {
		// several bool members are set to true somewhere (the replied flag plus a marker added next
		// to it): the replied flag is the one the type's code reads and writes far more often than
		// any other (at least twice as often)
		type cnt struct {
			f core.Field
			n int
		}
		var cs []cnt
		scope := p.FuncsOfPkg(rel)
		for f := range fields {
			f := f
			cs = append(cs, cnt{f, len(core.FieldAccesses(scope, func(g core.Field) bool { return g == f }))})
		}
		sort.Slice(cs, func(i, j int) bool {
			if cs[i].n != cs[j].n {
				return cs[i].n > cs[j].n
			}
			return cs[i].f.Name < cs[j].f.Name
		})
		if cs[0].n >= 2*cs[1].n && cs[0].n >= 4 {
			return cs[0].f, fields[cs[0].f], true
		}
		return core.Field{}, nil, false
	}
	if len(fields) != 1 {
		return core.Field{}, nil, false
	}
	for f, fns := range fields {
		return f, fns, true
	}
	return core.Field{}, nil, false
}

// edgeCond is an If edge that dominates some instruction.
type edgeCond struct {
	If   *ssa.If
	Succ int // 0 = true edge, 1 = false edge
}

// Norm returns the edge's condition with leading negations removed (a
// tagless switch case `case !x:` is built as a NOT value in x/tools v0.29)
// and the successor index adjusted accordingly.
func (e edgeCond) Norm() (ssa.Value, int) {
	c, s := e.If.Cond, e.Succ
	for {
		u, ok := c.(*ssa.UnOp)
		if !ok || u.Op != token.NOT {
			return c, s
		}
		c, s = u.X, 1-s
	}
}

// dominatingEdges lists the If edges every path from entry to in must take:
// edge (d -> succ i) is listed iff in's block becomes unreachable from the
// entry block once that edge is removed.
func dominatingEdges(in ssa.Instruction) []edgeCond {
	var out []edgeCond
	blk := in.Block()
	fn := in.Parent()
	for _, d := range fn.Blocks {
		if len(d.Instrs) == 0 {
			continue
		}
		iff, ok := d.Instrs[len(d.Instrs)-1].(*ssa.If)
		if !ok || len(d.Succs) != 2 || d.Succs[0] == d.Succs[1] {
			continue
		}
		for i := 0; i < 2; i++ {
			if !reachableWithout(fn, blk, d, i) {
				out = append(out, edgeCond{iff, i})
			}
		}
	}
	return out
}

// reachableWithout: is target reachable from entry when edge (d, succ i) is cut?
func reachableWithout(fn *ssa.Function, target, d *ssa.BasicBlock, i int) bool {
	seen := map[*ssa.BasicBlock]bool{}
	st := []*ssa.BasicBlock{fn.Blocks[0]}
	for len(st) > 0 {
		x := st[len(st)-1]
		st = st[:len(st)-1]
		if seen[x] {
			continue
		}
		seen[x] = true
		if x == target {
			return true
		}
		for j, s := range x.Succs {
			if x == d && j == i {
				continue
			}
			st = append(st, s)
		}
	}
	return false
}

func reachesBlock(a, b *ssa.BasicBlock) bool {
	if a == b {
		return true
	}
	seen := map[*ssa.BasicBlock]bool{}
	st := []*ssa.BasicBlock{a}
	for len(st) > 0 {
		x := st[len(st)-1]
		st = st[:len(st)-1]
		if seen[x] {
			continue
		}
		seen[x] = true
		if x == b {
			return true
		}
		st = append(st, x.Succs...)
	}
	return false
}

// describeCond renders an edge condition in semantic terms for keys.
func describeCond(e edgeCond) string { return describeCondWith(e, core.NewResolver()) }

// describeCondWith renders an edge condition under a resolver environment
// (helper parameters are shown as the caller's values).
func describeCondWith(e edgeCond, rs *core.Resolver) string {
	ci := core.CondWith(e.If.Cond, rs)
	truth := e.Succ == 0
	if ci.Negate {
		truth = !truth
	}
	var subj string
	switch {
	case ci.HasFld:
		subj = ci.Field.String()
	default:
		subj = valDescWith(ci.X, rs)
	}
	switch ci.Kind {
	case "boolfield":
		if truth {
			return subj
		}
		return "!" + subj
	case "nilcmp":
		eq := ci.Op == token.EQL
		if eq == truth {
			return subj + "==nil"
		}
		return subj + "!=nil"
	case "constcmp", "lencmp":
		pre := ""
		if ci.Kind == "lencmp" {
			pre = "len "
		}
		op := ci.Op.String()
		if !truth {
			op = map[string]string{"==": "!=", "!=": "==", "<": ">=", ">=": "<", ">": "<=", "<=": ">"}[op]
		}
		return pre + subj + op + ci.Const.ExactString()
	}
	if truth {
		return "cond(" + subj + ")"
	}
	return "!cond(" + subj + ")"
}

func valDesc(v ssa.Value) string { return valDescWith(v, core.NewResolver()) }

func valDescWith(v ssa.Value, rs *core.Resolver) string {
	v = core.Strip(rs.R(core.Strip(v)))
	if f, ok := core.LoadedField(v); ok {
		return f.String()
	}
	switch x := v.(type) {
	case *ssa.Parameter:
		return "param:" + x.Name()
	case *ssa.Call:
		return "call:" + core.CalleeName(x)
	case *ssa.Const:
		return "const:" + x.String()
	case *ssa.Phi:
		return "phi:" + x.Comment
	case *ssa.Extract:
		return "extract:" + valDescWith(x.Tuple, rs)
	case *ssa.Lookup:
		return "lookup:" + valDescWith(x.X, rs)
	case *ssa.BinOp:
		return "(" + valDescWith(x.X, rs) + x.Op.String() + valDescWith(x.Y, rs) + ")"
	case *ssa.UnOp:
		if x.Op == token.MUL {
			if a, ok := x.X.(*ssa.Alloc); ok {
				return "local:" + a.Comment
			}
			if fv, ok := x.X.(*ssa.FreeVar); ok {
				return "captured:" + fv.Name()
			}
			if g, ok := x.X.(*ssa.Global); ok {
				return "global:" + g.Name()
			}
		}
		return x.Op.String() + valDescWith(x.X, rs)
	}
	s := v.Name()
	if strings.HasPrefix(s, "t") {
		return "value"
	}
	return s
}

// callsTo returns call instructions in fns whose static callee is target.
func callsTo(fns []*ssa.Function, target *ssa.Function) []ssa.CallInstruction {
	var out []ssa.CallInstruction
	for _, fn := range fns {
		for _, c := range core.Calls(fn) {
			if c.Common().StaticCallee() == target {
				out = append(out, c)
			}
		}
	}
	return out
}

// invokes returns interface-method call sites named iface.method (by method
// name and interface type name) within fns.
func invokes(fns []*ssa.Function, ifaceSuffix, method string) []ssa.CallInstruction {
	var out []ssa.CallInstruction
	for _, fn := range fns {
		for _, c := range core.Calls(fn) {
			cc := c.Common()
			if cc.IsInvoke() && cc.Method.Name() == method && strings.HasSuffix(core.TypeName(cc.Value.Type()), ifaceSuffix) {
				out = append(out, c)
			}
		}
	}
	return out
}

// deferredRecover returns the closure deferred in fn's entry block that calls
// recover(), if any.
func deferredRecover(fn *ssa.Function) (*ssa.Function, *ssa.Defer) {
	if len(fn.Blocks) == 0 {
		return nil, nil
	}
	for _, in := range fn.Blocks[0].Instrs {
		d, ok := in.(*ssa.Defer)
		if !ok {
			continue
		}
		var cl *ssa.Function
		switch v := d.Call.Value.(type) {
		case *ssa.MakeClosure:
			cl, _ = v.Fn.(*ssa.Function)
		case *ssa.Function:
			cl = v
		}
		if cl == nil {
			continue
		}
		for _, c := range core.Calls(cl) {
			if core.CalleeName(c) == "builtin:recover" {
				return cl, d
			}
		}
	}
	return nil, nil
}
