package props

import (
	"fmt"
	"go/token"
	"go/types"
	"strings"

	"golang.org/x/tools/go/ssa"

	"resverif/core"
)

func init() { register("C02", c02) }

// containsVal: does value v (a slice/array/element) hold the value want?
func containsVal(v, want ssa.Value, d int) bool {
	if d > 8 || v == nil {
		return false
	}
	if v == want {
		return true
	}
	switch x := v.(type) {
	case *ssa.Slice:
		return addrHolds(x.X, want, d+1)
	case *ssa.UnOp:
		if x.Op == token.MUL {
			return addrHolds(x.X, want, d+1)
		}
	case *ssa.ChangeType:
		return containsVal(x.X, want, d+1)
	case *ssa.MakeClosure:
		for _, b := range x.Bindings {
			if containsVal(b, want, d+1) {
				return true
			}
		}
	}
	return false
}

func addrHolds(addr, want ssa.Value, d int) bool {
	if d > 8 {
		return false
	}
	storesInto := func(a ssa.Value) bool {
		refs := a.Referrers()
		if refs == nil {
			return false
		}
		for _, r := range *refs {
			switch x := r.(type) {
			case *ssa.Store:
				if x.Addr == a && containsVal(x.Val, want, d+1) {
					return true
				}
			case *ssa.IndexAddr:
				if x.X == a && addrHolds(x, want, d+1) {
					return true
				}
			}
		}
		return false
	}
	switch x := addr.(type) {
	case *ssa.Alloc:
		return storesInto(x)
	case *ssa.IndexAddr:
		if storesInto(x) {
			return true
		}
		return false
	case *ssa.FieldAddr:
		// any FieldAddr of the same base and field in the function
		fn := x.Parent()
		for _, b := range fn.Blocks {
			for _, in := range b.Instrs {
				if fa, ok := in.(*ssa.FieldAddr); ok && fa.X == x.X && fa.Field == x.Field {
					if storesInto(fa) {
						return true
					}
				}
			}
		}
	}
	return false
}

func c02(r *core.Run) {
	p := r.P
	r.Explanation = "Shape analysis of the two FIFO queues (who-may-write census with the value shape of every store: tail-append / head-drop only; only index-0 / loop-counter reads), a counting typestate over the drain loop (exactly one call of queue[i] and one i+1 per iteration), a no-drop typestate over enqueue (every accepted submission stores the callback exactly once and wakes a worker), the single sequential listener (no go on the path serve ->* enqueue), and the With error contract. Decides the structural necessary conditions of exactly-once/in-order; the order actually observed under a schedule follows from these plus the mutex and is not itself executed."
	r.NotDecided = []string{"the order observed under a concrete schedule", "the Shutdown cut-off (which submissions are refused)", "NATS delivering messages in order on the channel"}
	r.Assumptions = []string{"sync.Cond wake-up semantics", "Go channel FIFO semantics"}

	r.Rule("Q1", "FIFO shape of W.queue: the only stores are the initial one-element slice holding the callback (fresh item) and append(<load of the same field>, cb); the only reads are len, the append source and index by the drain counter", 4)
	r.Rule("Q2", "drain loop: counter starts at 0, is compared with len(W.queue) re-loaded each iteration, every iteration calls the element at [counter] exactly once and advances the counter by exactly one", 3)
	r.Rule("Q3", "FIFO shape of S.workqueue: stores are tail-append, drop-head ([1:] of itself, or the empty prefix of the buffer on the len==1 edge), nil in closeFn and the initial value in serve; the only element read is index 0", 5)
	r.Rule("N1", "no drop / no duplicate: in enqueue every path past the started-check that reaches a return has stored the callback exactly once (append to the pending item, or new item holding it pushed on the work queue); refusal returns are only the not-started / closing edges", 2)
	r.Rule("N2", "wake-up: every push on S.workqueue is followed on all paths by Signal/Broadcast on the worker condition; Cond.Wait sits in a loop that re-checks the queue", 2)
	r.Rule("O1", "single sequential listener: request handling is called only from the listener loop, the listener only from serve by a plain call on the channel stored as the in-channel, and there is no go statement on the call path serve ->* enqueue", 4)
	r.Rule("H1", "no orphaned work items across restarts (shared with C01.H1): the group registry is re-created before the workers of a run start and the service is stopped only after all workers exited; otherwise an entry left by a Shutdown with queued work survives, later submissions for that group are appended to a work item no worker owns and never run", 2)
	r.Rule("W2", "With finds every handler that matches (shared with C06.R12): the matcher records a literal or placeholder node as the match only when it has a handler, otherwise it goes on to the placeholder and wildcard siblings; else With reports an error and runs nothing for an id that a registered handler matches", 1)
	r.Rule("W3", "With looks the handler up without touching shared state (shared with C06.R6): no function reachable from Mux.GetHandler writes Mux / node / handler state or appends into a slice held there; With, Resource and the listener run lookups concurrently, so a shared scratch buffer makes With report an error for a resource that has a handler, or queue the callback under another resource's group", 1)
	r.Rule("W4", "callbacks of a group share its queue (the group-tag obligations of C06.R2, shared with C01.F4): the index of a ${tag} part of a group template is used for nothing but indexing the tokens - a template whose tag sits on the first token must not evaluate to the empty id, which is the marker for 'no group' and makes every callback an independent work item, started in any order", 1)
	r.Rule("N3", "accepted means started, and started ends only in Shutdown: the state word that runWith tests is written only by the start-up and shutdown functions (the Serve entry points, serve, the function that runs the close protocol) - a connection handler that parks the state elsewhere while the connection is down makes runWith drop every callback submitted in that time, although Serve is running and no Shutdown began", 3)
	r.Rule("W6", "With runs nothing for a name no handler matches (shared with C06.R7): in the lookup the remainder of the name after the mux path is taken only after the byte following the path was tested to be the token separator - otherwise With(\"testmodel\", cb) on service \"test\" finds the handler of test.model, returns nil and runs cb", 1)
	r.Rule("W5", "WithResource and query callbacks join the queue of the resource they were handed (shared with C01.F2): the group a Resource / Request reports is the routed Match.Group - the evaluated id -, every enqueue is keyed by it, and an unset group defaults to the full resource name; a request carrying the raw option string instead queues WithResource(request, cb) and its query callbacks under another id, where they overtake the callbacks submitted before them", 8)
	r.Rule("H2", "an accepted callback has a worker (shared with C03.S2): every worker is started before the service is published as started - the state from which enqueue accepts callbacks; a callback accepted earlier than that sits in the queue with nobody to run it (an OnServe callback waiting for its own With callback never returns)", 1)
	r.Rule("V1", "each queued callback handles its own message (shared with C15.C1 / C16.V1): no closure created in a loop and handed to the queue captures a variable the loop re-assigns - with the module's go directive a shared loop variable makes every queued closure see the latest message, so one is handled several times and another never", 1)
	r.Rule("A2", "order across producers: the lookup of a group's pending work item and the register/append that follows are one critical section (same obligations as C01.A2): otherwise two producers can create two work items for one group and later submissions overtake earlier ones", 4)
	r.Rule("W1", "With: Resource returns a non-nil error exactly on the no-handler edge; With returns that error without reaching enqueue and otherwise reaches enqueue exactly once and returns nil", 4)

	a, e := queueEngine(r, "Q1")
	if e == nil {
		return
	}
	root := p.FuncsOfPkg("")

	// ---- Q1 --------------------------------------------------------------
	c02GroupQueue(r, "Q1", a, root)

	// ---- Q2 --------------------------------------------------------------
	c02Drain(r, "Q2", a)

	// ---- Q3 --------------------------------------------------------------
	c02WorkQueueShape(r, "Q3", a, root)

	// ---- N1 --------------------------------------------------------------
	{
		// typestate: 0 nothing stored, 1 stored once, 2 stored more than once, 3 refused (took the
		// not-started or the queue-closed edge before anything was stored)
		fn := a.Enqueue
		fname := core.FuncName(fn)
		refusalOf := func(iff *ssa.If, succ int) string {
			d := describeCond(edgeCond{iff, succ})
			if strings.HasPrefix(d, "call:sync/atomic.LoadInt32!=") || strings.HasPrefix(d, "call:(*sync/atomic.Int32).Load!=") {
				return "service not started: submission refused (C03.S5)"
			}
			if d == a.WorkQueue.String()+"==nil" {
				return "work queue closed (Shutdown in progress): submission refused (C03.N0)"
			}
			return ""
		}
		fl := &core.Flow{Fn: fn, Entry: core.StateSet(0).Add(0), Inline: p.IsPrivateHelper}
		fl.Transfer = func(in ssa.Instruction, s int) core.StateSet {
			if st, ok := in.(*ssa.Store); ok {
				if f, ok := core.FieldOf(st.Addr); ok {
					if (f == a.WQueue && !freshBase(st.Addr, st)) || f == a.WorkQueue {
						switch s {
						case 0, 3:
							s = 1
						default:
							s = 2
						}
					}
				}
			}
			return core.StateSet(0).Add(s)
		}
		refusals := map[string]ssa.Instruction{}
		fl.Branch = func(iff *ssa.If, succ int, s int) (int, bool) {
			if why := refusalOf(iff, succ); why != "" {
				refusals[why] = iff
				if s == 0 {
					return 3, true
				}
			}
			return s, true
		}
		res := fl.Run()
		for why, at := range refusals {
			r.ExemptObl("N1", fname, "refusal-edge:"+strings.SplitN(why, ":", 2)[0], p.InstrPos(at), why)
		}
		for _, ret := range core.Returns(fn) {
			st := res.Before[ret]
			if st.Empty() {
				continue
			}
			var conds []string
			for _, ed := range dominatingEdges(ret) {
				conds = append(conds, describeCond(ed))
			}
			switch {
			case st.Only(1):
				r.OK("N1", fname, "return:"+returnDesc(ret, conds), p.InstrPos(ret), "callback stored exactly once on every path to this return")
			case !st.Has(0) && !st.Has(2):
				r.OK("N1", fname, "return:"+returnDesc(ret, conds), p.InstrPos(ret), "every path to this return either stored the callback exactly once or took a documented refusal edge")
			default:
				r.Bad("N1", fname, "return:"+returnDesc(ret, conds), p.InstrPos(ret), fmt.Sprintf("callback stored %v times on some path to this return (0 = nothing stored and no refusal edge, 2 = more than once): an accepted submission is dropped or duplicated", st.List()))
			}
		}
	}

	// ---- N2 --------------------------------------------------------------
	for _, fn := range root {
		if p.IsPrivateHelper(fn) {
			continue // analysed as part of its callers
		}
		has := false
		for _, ac := range core.FieldAccesses(p.Helpers(fn), func(f core.Field) bool { return f == a.WorkQueue }) {
			if ac.Kind == "store" && storeShape(ac.Instr.(*ssa.Store).Val, a) == "builtin:append" {
				has = true
			}
		}
		if !has {
			continue
		}
		fl := &core.Flow{Fn: fn, Entry: core.StateSet(0).Add(0), Inline: p.IsPrivateHelper, Tags: true}
		fl.Transfer = func(in ssa.Instruction, s int) core.StateSet {
			switch x := in.(type) {
			case *ssa.Store:
				if f, ok := core.FieldOf(x.Addr); ok && f == a.WorkQueue && storeShape(x.Val, a) == "builtin:append" {
					return core.StateSet(0).Add(1)
				}
			case *ssa.Call:
				if op := e.lockOp(x); op == "signal" || op == "broadcast" {
					return core.StateSet(0).Add(0)
				}
			}
			return core.StateSet(0).Add(s)
		}
		res := fl.Run()
		for _, ret := range core.Returns(fn) {
			st := res.Before[ret]
			if st.Empty() {
				continue
			}
			var conds []string
			for _, ed := range dominatingEdges(ret) {
				conds = append(conds, describeCond(ed))
			}
			r.Check(st.Only(0), "N2", core.FuncName(fn), "wake-after-push:return:"+returnDesc(ret, conds), p.InstrPos(ret), "no push without a following Signal/Broadcast on this path", "a work item is pushed but no worker is woken on some path to this return (lost wake-up: the callback may never run)")
		}
	}
	for _, c := range core.Calls(a.Worker) {
		if e.lockOp(c) == "wait" {
			r.Check(core.Reaches(c, c), "N2", core.FuncName(a.Worker), "wait-in-loop", p.InstrPos(c), "Cond.Wait is inside a loop (condition re-evaluated after wake-up; A3 of C01 requires a fresh non-empty check before the pop)", "Cond.Wait is not in a loop: spurious wake-ups would pop an empty queue")
		}
	}

	// ---- A2 (shared with C01) ---------------------------------------------
	c01Enqueue(r, a, e)
	// ---- O1 --------------------------------------------------------------
	c02Listener(r, "O1", a, root)
	// ---- V1 (shared with C15 / C16) ------------------------------------------
	loopCaptureRule(r, "V1", "all closures queued from this loop see the value of the latest iteration - one submission runs several times, another never")
	// ---- H1 (shared with C01) ---------------------------------------------
	c01Restart(r, "H1", a, root)
	c03WorkersBeforeStarted(r, "H2", a, root)
	c06PureLookup(r, "W3")
	c01GroupArg(r, "W5", a, root)
	c06PrefixBoundary(r, "W6")
	r.Rule("W7", "With runs the callback for every name a handler matches (shared with C06.R1): the trie matcher tries literal, placeholder, wildcard in that order and a failed recursive match falls through to the next candidate - where the recursive result is returned directly, a name that enters a literal subtree but only matches through the placeholder or wildcard sibling finds no handler, and With reports an error for a resource that has one", 3)
	if ro := resolveMuxRolesFor(r, "W7"); ro != nil {
		c06Specificity(r, "W7", ro)
	}
	c02StateWrittenOnlyByLifecycle(r, "N3", a, root)
	if ro := resolveMuxRolesFor(r, "W4"); ro != nil {
		c06Units(r, "W4", root, ro, true)
	}
	if ro := resolveMuxRolesFor(r, "W2"); ro != nil {
		c06AcceptHasHandler(r, "W2", root, ro)
	}
	// ---- W1 --------------------------------------------------------------
	c02With(r, a, root)
}

// c02GroupQueue: FIFO shape of a work item's callback queue (C02.Q1; shared
// with C04.R12).
func c02GroupQueue(r *core.Run, rule string, a *svcAnchors, root []*ssa.Function) {
	p := r.P
	// cb parameter of enqueue
	var cb *ssa.Parameter
	for _, prm := range a.Enqueue.Params {
		if sig, ok := prm.Type().Underlying().(*types.Signature); ok && sig.Params().Len() == 0 {
			cb = prm
		}
	}

	for _, ac := range core.FieldAccesses(root, func(f core.Field) bool { return f == a.WQueue }) {
		fn := core.FuncName(ac.Fn)
		switch ac.Kind {
		case "store":
			st := ac.Instr.(*ssa.Store)
			if freshBase(ac.Addr, st) {
				cbHere := cbParamIn(p, ac.Fn, a.Enqueue, cb, 0)
				ok := p.Within(ac.Fn, a.Enqueue) && cbHere != nil && containsVal(st.Val, cbHere, 0)
				hi := int64(-1)
				if sl, isSl := st.Val.(*ssa.Slice); isSl && sl.High != nil {
					hi, _ = core.ConstInt(sl.High)
				}
				oneElem := hi == 1 || hi == -1
				r.Check(ok && oneElem, rule, fn, "store(fresh "+a.WQueue.String()+")=[cb]", p.InstrPos(st), "new item's queue is a one-element slice holding the submitted callback", "the new work item's queue does not hold exactly the submitted callback")
				continue
			}
			call, isCall := st.Val.(*ssa.Call)
			good := isCall && core.CalleeName(call) == "builtin:append"
			if good {
				lf, ok := core.LoadedField(call.Call.Args[0])
				cbHere := cbParamIn(p, ac.Fn, a.Enqueue, cb, 0)
				good = ok && lf == a.WQueue && len(call.Call.Args) == 2 && cbHere != nil && elemOfVarargs(call.Call.Args[1]) == ssa.Value(cbHere)
			}
			r.Check(good && p.Within(ac.Fn, a.Enqueue), rule, fn, "store("+a.WQueue.String()+")=append(self,cb)", p.InstrPos(st), "tail append of the submitted callback to the item's own queue", "store to the callback queue is not a tail-append of the submitted callback (order or content of pending callbacks can change)")
		case "load":
			ld := ac.Instr.(ssa.Value)
			okUse := true
			desc := []string{}
			if refs := ld.Referrers(); refs != nil {
				for _, rf := range *refs {
					switch x := rf.(type) {
					case *ssa.Call:
						n := core.CalleeName(x)
						if n == "builtin:len" || n == "builtin:append" {
							desc = append(desc, n)
						} else {
							okUse = false
							desc = append(desc, n)
						}
					case *ssa.IndexAddr:
						desc = append(desc, "index")
						if !p.Within(ac.Fn, a.Drain) {
							okUse = false
						}
					case *ssa.DebugRef:
					default:
						okUse = false
						desc = append(desc, fmt.Sprintf("%T", rf))
					}
				}
			}
			r.Check(okUse, rule, fn, "load("+a.WQueue.String()+")->"+strings.Join(desc, "+"), p.InstrPos(ac.Instr), "read used only for len / append source / drain index", "the callback queue is read in an unexpected way: "+strings.Join(desc, "+"))
		case "addr-nested", "addr-escape", "addr-other":
			r.Bad(rule, fn, ac.Kind+"("+a.WQueue.String()+")", p.InstrPos(ac.Instr), "address of the callback queue escapes")
		}
	}
}

func c02Drain(r *core.Run, rule string, a *svcAnchors) {
	p := r.P
	fn := a.Drain
	fname := core.FuncName(fn)
	// the counter: index used on the queue
	var idx ssa.Value
	var elemCalls []ssa.CallInstruction
	// an element call: the dynamic call of queue[counter], or the call of a private helper that is
	// handed queue[counter] and calls that parameter (e.g. "run with the lock released")
	isElemCall := func(c ssa.CallInstruction) (ssa.Value, bool) {
		if core.IsDynamic(c) && isQueueElem(c.Common().Value, a.WQueue) {
			return c.Common().Value, true
		}
		if cal := c.Common().StaticCallee(); cal != nil && p.IsPrivateHelper(cal) {
			for i, arg := range c.Common().Args {
				if !isQueueElem(arg, a.WQueue) || i >= len(cal.Params) {
					continue
				}
				n := 0
				for _, hc := range core.Calls(cal) {
					if core.IsDynamic(hc) && hc.Common().Value == ssa.Value(cal.Params[i]) && !core.IsGo(hc) && !core.IsDefer(hc) {
						n++
					}
				}
				if n == 1 {
					return arg, true
				}
			}
		}
		return nil, false
	}
	for _, c := range core.Calls(fn) {
		if ev, ok := isElemCall(c); ok {
			elemCalls = append(elemCalls, c)
			ia := ev.(*ssa.UnOp).X.(*ssa.IndexAddr)
			idx = ia.Index
		}
	}
	phi, ok := idx.(*ssa.Phi)
	if !ok {
		d := "none found"
		if idx != nil {
			d = valDesc(idx)
		}
		r.Bad(rule, fname, "counter-is-loop-phi", p.Pos(fn.Pos()), "the drain index is not a loop-carried counter: "+d)
		return
	}
	startsAt0, stepOne := false, true
	nBack := 0
	loop := naturalLoop(phi.Block())
	for i, ed := range phi.Edges {
		pred := phi.Block().Preds[i]
		if c, ok := core.ConstInt(ed); ok {
			if c == 0 && !loop[pred] {
				startsAt0 = true // entered from outside the drain loop (possibly once per outer iteration)
			} else {
				stepOne = false
			}
			continue
		}
		nBack++
		bo, ok := ed.(*ssa.BinOp)
		if !ok || bo.Op != token.ADD || bo.X != ssa.Value(phi) {
			stepOne = false
			continue
		}
		if c, ok := core.ConstInt(bo.Y); !ok || c != 1 {
			stepOne = false
		}
	}
	r.Check(startsAt0 && stepOne && nBack > 0, rule, fname, "counter:0,+1", p.InstrPos(phi), "counter starts at 0 and every back edge carries counter+1", "the drain counter does not start at 0 or does not advance by exactly one per iteration (a callback is skipped or run twice)")
	// loop condition compares len(queue) with the counter
	condOK := false
	if iff, ok := phi.Block().Instrs[len(phi.Block().Instrs)-1].(*ssa.If); ok {
		if other, isEx := exhaustedEdge(iff, 1, a.WQueue); other == ssa.Value(phi) {
			_ = isEx
			condOK = true
		}
		if other, _ := exhaustedEdge(iff, 0, a.WQueue); other == ssa.Value(phi) {
			condOK = true
		}
	}
	r.Check(condOK, rule, fname, "loop-condition:len(queue)~counter", p.InstrPos(phi), "loop head compares the re-loaded queue length with the counter", "loop head does not compare len(queue) with the counter")
	// per-iteration call count
	const (
		ent   = 0
		zero  = 1
		one   = 2
		two   = 3
		noRun = 4
		dbl   = 5
	)
	fl := &core.Flow{Fn: fn, Entry: core.StateSet(0).Add(ent)}
	fl.Transfer = func(in ssa.Instruction, s int) core.StateSet {
		if in == ssa.Instruction(phi) {
			switch s {
			case ent, one:
				return core.StateSet(0).Add(zero)
			case zero:
				return core.StateSet(0).Add(noRun)
			case two:
				return core.StateSet(0).Add(dbl)
			}
			return core.StateSet(0).Add(s)
		}
		if c, ok := in.(ssa.CallInstruction); ok && func() bool { _, is := isElemCall(c); return is }() {
			switch s {
			case zero:
				return core.StateSet(0).Add(one)
			case one, two:
				return core.StateSet(0).Add(two)
			}
		}
		return core.StateSet(0).Add(s)
	}
	// leaving the drain loop ends the counting (the loop may be entered again by an enclosing loop)
	fl.Branch = func(iff *ssa.If, succ int, s int) (int, bool) {
		if iff.Block() == phi.Block() && !loop[iff.Block().Succs[succ]] {
			if s == zero || s == one {
				return ent, true
			}
		}
		return s, true
	}
	res := fl.Run()
	bad := false
	for _, b := range fn.Blocks {
		for _, in := range b.Instrs {
			if st := res.After[in]; st.Has(noRun) || st.Has(dbl) {
				bad = true
			}
		}
	}
	r.Check(!bad && len(elemCalls) > 0, rule, fname, "one-call-per-iteration", p.Pos(fn.Pos()), "every loop iteration calls the element at [counter] exactly once", "some iteration of the drain loop calls no element or more than one (skip / duplicate)")
	for _, c := range elemCalls {
		r.Check(!core.IsGo(c) && !core.IsDefer(c), rule, fname, "element-call-is-synchronous", p.InstrPos(c), "plain call", "queue element is started with go/defer: callbacks of the group would overlap or reorder")
	}
}

func c02Listener(r *core.Run, rule string, a *svcAnchors, root []*ssa.Function) {
	p := r.P
	// handleRequest: the function containing the closure that calls processRequest and hands it to enqueue;
	// structurally: a declared function with a *nats.Msg parameter that calls enqueue.
	var handlers []*ssa.Function
	for _, fn := range root {
		if fn.Parent() != nil {
			continue
		}
		hasMsg := false
		for _, prm := range fn.Params {
			if strings.HasSuffix(core.TypeName(prm.Type()), "nats.go.Msg") {
				hasMsg = true
			}
		}
		if !hasMsg || fn.Signature.Recv() == nil || core.TypeName(fn.Signature.Recv().Type()) != a.S {
			continue
		}
		for _, c := range core.Calls(fn) {
			if c.Common().StaticCallee() == a.Enqueue {
				handlers = append(handlers, fn)
				break
			}
		}
	}
	if len(handlers) != 1 {
		r.Unres(rule, "handleRequest", fmt.Sprintf("%d candidates", len(handlers)))
		return
	}
	h := handlers[0]
	for _, c := range core.Calls(h) {
		if c.Common().StaticCallee() == a.Enqueue {
			r.Check(!core.IsGo(c) && !core.IsDefer(c), rule, core.FuncName(h), "enqueue-call-is-plain", p.InstrPos(c), "the message handler submits synchronously", "the message handler submits with go/defer: requests of one channel can be enqueued out of order")
		}
	}
	var listener *ssa.Function
	inlined := false // the receive loop is written out in serve itself
	for _, c := range callsTo(root, h) {
		l := c.Parent()
		// must range over a channel: contains a receive on its channel parameter, or (loop written
		// out in serve) on the very channel value serve stores as the in-channel
		recv := false
		for _, b := range l.Blocks {
			for _, in := range b.Instrs {
				u, ok := in.(*ssa.UnOp)
				if !ok || u.Op != token.ARROW {
					continue
				}
				if _, isParam := u.X.(*ssa.Parameter); isParam {
					recv = true
				}
				if l == a.Serve {
					for _, b2 := range l.Blocks {
						for _, in2 := range b2.Instrs {
							if st, ok := in2.(*ssa.Store); ok {
								if f, ok := core.FieldOf(st.Addr); ok && f == a.InCh && st.Val == u.X {
									recv, inlined = true, true
								}
							}
						}
					}
				}
			}
		}
		okc := recv && !core.IsGo(c) && !core.IsDefer(c)
		r.Check(okc, rule, core.FuncName(l), "calls-handleRequest-from-receive-loop", p.InstrPos(c), "request handling is called synchronously from the loop receiving on the channel parameter", "request handling is started with go, or called from outside the channel receive loop")
		listener = l
	}
	if listener == nil {
		r.Bad(rule, core.FuncName(h), "has-listener", p.Pos(h.Pos()), "the message handler has no static caller")
		return
	}
	if inlined {
		r.OK(rule, core.FuncName(listener), "listener-started-by-plain-call-on-in-channel", p.Pos(listener.Pos()), "the receive loop is part of serve and ranges over the channel value stored as the in-channel")
		r.Check(len(callsTo(root, h)) == 1, rule, core.FuncName(listener), "single-listener", p.Pos(listener.Pos()), "exactly one receive loop handles requests", "several loops handle requests: two listeners would interleave submissions")
		return
	}
	n := 0
	for _, c := range callsTo(root, listener) {
		n++
		chanArg := c.Common().Args[len(c.Common().Args)-1]
		// the channel passed is the value stored into S.inCh by this run's serve (the store and the
		// listener call may each sit in a private helper of serve: values are followed through the
		// helpers' parameters to serve's own value)
		same := false
		inServe := c.Parent() == a.Serve || (c.Parent().Parent() == nil && p.Within(c.Parent(), a.Serve) && len(p.Lift(c, a.Serve)) > 0)
		one := func(v ssa.Value) ssa.Value { return originOf(p, v) }
		if cv := one(chanArg); cv != nil {
			for _, f2 := range p.Helpers(a.Serve) {
				for _, b := range f2.Blocks {
					for _, in := range b.Instrs {
						if st, ok := in.(*ssa.Store); ok {
							if f, ok := core.FieldOf(st.Addr); ok && f == a.InCh && one(st.Val) == cv {
								same = true
							}
						}
					}
				}
			}
		}
		r.Check(inServe && !core.IsGo(c) && same, rule, core.FuncName(c.Parent()), "listener-started-by-plain-call-on-in-channel", p.InstrPos(c),
			"one listener, called synchronously by serve on the channel stored as the in-channel", "the listener is started with go / from another function / on a different channel than the in-channel")
	}
	r.Check(n == 1, rule, core.FuncName(listener), "single-listener", p.Pos(listener.Pos()), "exactly one call site starts the listener", fmt.Sprintf("%d call sites start a listener: two listeners would interleave submissions", n))
}

func c02With(r *core.Run, a *svcAnchors, root []*ssa.Function) {
	p := r.P
	var resFn, with *ssa.Function
	for _, fn := range methodsOf(p, "", a.S) {
		switch fn.Name() {
		case "Resource":
			resFn = fn
		case "With":
			with = fn
		}
	}
	if resFn == nil || with == nil {
		r.Unres("W1", "Service.Resource/With", "exported API missing")
		return
	}
	for _, ret := range core.Returns(resFn) {
		noHandler := false
		var conds []string
		for _, ed := range dominatingEdges(ret) {
			d := describeCond(ed)
			conds = append(conds, d)
			if d == "call:(*Mux).GetHandler==nil" {
				noHandler = true
			}
		}
		errNil := false
		if c, ok := ret.Results[1].(*ssa.Const); ok && c.IsNil() {
			errNil = true
		}
		resNil := false
		if c, ok := ret.Results[0].(*ssa.Const); ok && c.IsNil() {
			resNil = true
		}
		if noHandler {
			r.Check(!errNil && resNil, "W1", core.FuncName(resFn), "return:no-handler->error", p.InstrPos(ret), "no matching handler: nil resource and a non-nil error", "the no-handler edge returns a nil error or a resource")
		} else {
			r.Check(errNil && !resNil, "W1", core.FuncName(resFn), "return:handler->resource:"+returnDesc(ret, conds), p.InstrPos(ret), "matching handler: resource and nil error", "a matched resource is returned with an error, or nil without one")
		}
	}
	// With: typestate (number of enqueues) x (what is known about Resource's error)
	var errVal ssa.Value
	for _, c := range core.Calls(with) {
		if c.Common().StaticCallee() == resFn && c.Value() != nil && c.Value().Referrers() != nil {
			for _, rf := range *c.Value().Referrers() {
				if ex, ok := rf.(*ssa.Extract); ok && ex.Index == 1 {
					errVal = ex
				}
			}
		}
	}
	if errVal == nil {
		r.Bad("W1", core.FuncName(with), "tests-Resource-error", p.Pos(with.Pos()), "With does not obtain the resource through Resource() / ignores its error")
		return
	}
	const (
		esUnknown = 0
		esNil     = 1
		esErr     = 2
	)
	fl := &core.Flow{Fn: with, Entry: core.StateSet(0).Add(0), Inline: p.IsPrivateHelper}
	fl.Transfer = func(in ssa.Instruction, s int) core.StateSet {
		if c, ok := in.(*ssa.Call); ok && c.Common().StaticCallee() == a.Enqueue {
			if s%3 < 2 {
				s++
			}
		}
		return core.StateSet(0).Add(s)
	}
	fl.Branch = func(iff *ssa.If, succ int, s int) (int, bool) {
		ci := core.Cond(iff.Cond)
		if ci.Kind != "nilcmp" || ci.X != errVal {
			return s, true
		}
		truth := succ == 0
		if ci.Negate {
			truth = !truth
		}
		es := esErr
		if (ci.Op == token.EQL) == truth {
			es = esNil
		}
		return s%3 + 3*es, true
	}
	res := fl.Run()
	for _, ret := range core.Returns(with) {
		st := res.Before[ret]
		if st.Empty() {
			continue
		}
		var conds []string
		for _, ed := range dominatingEdges(ret) {
			conds = append(conds, describeCond(ed))
		}
		retNil := isNilConst(ret.Results[0])
		retErr := ret.Results[0] == errVal
		good, why := true, ""
		sawOK, sawErr := false, false
		for _, x := range st.List() {
			enq, es := x%3, x/3
			switch {
			case es == esNil && enq == 1 && (retNil || retErr):
				sawOK = true
			case es == esErr && enq == 0 && retErr:
				sawErr = true
			default:
				good = false
				why = fmt.Sprintf("a path with Resource-error=%s reaches this return after %d enqueue(s), returning %s", []string{"untested", "nil", "non-nil"}[es], enq, valDesc(ret.Results[0]))
			}
		}
		if sawErr || !good && !sawOK {
			r.Check(good, "W1", core.FuncName(with), "return:error-edge", p.InstrPos(ret), "no-handler: returns Resource's error, nothing enqueued", "the error edge of With enqueues the callback or does not return Resource's error: "+why)
		}
		if sawOK || !good && !sawErr {
			r.Check(good, "W1", core.FuncName(with), "return:ok-edge:"+returnDesc(ret, conds), p.InstrPos(ret), "handler found: enqueued exactly once, nil returned", "the success edge of With does not enqueue exactly once / return nil: "+why)
		}
	}
}

// cbParamIn returns the value that denotes enqueue's callback parameter
// inside fn: the parameter itself in enqueue, or - in a private helper - the
// parameter that every call site binds to it.
func cbParamIn(p *core.Prog, fn, enqueue *ssa.Function, cb *ssa.Parameter, depth int) *ssa.Parameter {
	if cb == nil || depth > 4 {
		return nil
	}
	if fn == enqueue {
		return cb
	}
	if fn.Parent() != nil {
		return nil
	}
	cs := p.CallersOf(fn)
	if len(cs) == 0 {
		return nil
	}
	for i, prm := range fn.Params {
		all := true
		for _, c := range cs {
			up := cbParamIn(p, c.Parent(), enqueue, cb, depth+1)
			if up == nil || i >= len(c.Common().Args) || c.Common().Args[i] != ssa.Value(up) {
				all = false
			}
		}
		if all {
			return prm
		}
	}
	return nil
}

// naturalLoop returns the blocks of the natural loop(s) with header h: h and
// every block from which a back edge source of h is reachable without passing h.
func naturalLoop(h *ssa.BasicBlock) map[*ssa.BasicBlock]bool {
	in := map[*ssa.BasicBlock]bool{h: true}
	var st []*ssa.BasicBlock
	for _, p := range h.Preds {
		if h.Dominates(p) {
			st = append(st, p)
		}
	}
	for len(st) > 0 {
		x := st[len(st)-1]
		st = st[:len(st)-1]
		if in[x] {
			continue
		}
		in[x] = true
		st = append(st, x.Preds...)
	}
	return in
}

// c02WorkQueueShape: the FIFO shape rule of the service work queue (C02.Q3;
// C04 shares it: an item dropped from the queue is a request never answered).
func c02WorkQueueShape(r *core.Run, rule string, a *svcAnchors, root []*ssa.Function) {
	p := r.P
	for _, ac := range core.FieldAccesses(root, func(f core.Field) bool { return f == a.WorkQueue }) {
		fn := core.FuncName(ac.Fn)
		switch ac.Kind {
		case "store":
			st := ac.Instr.(*ssa.Store)
			shape := storeShape(st.Val, a)
			ok := false
			why := ""
			switch {
			case shape == "builtin:append":
				call := st.Val.(*ssa.Call)
				lf, lok := core.LoadedField(call.Call.Args[0])
				ok = p.Within(ac.Fn, a.Enqueue) && lok && lf == a.WorkQueue
				why = "push must be append(load of itself, item) in enqueue"
			case shape == a.WorkQueue.Name+"[1:]":
				ok = p.Within(ac.Fn, a.Worker)
				why = "drop-head only in the worker loop"
			case shape == a.WorkBuf.Name+"[:0]":
				if p.Within(ac.Fn, a.Serve) {
					ok = true
				} else if p.Within(ac.Fn, a.Worker) {
					// must be on the len(workqueue)==1 edge
					headRead := false // the head element was read before: the queue holds at least one item
					for _, b := range st.Parent().Blocks {
						for _, in := range b.Instrs {
							if ia, isIA := in.(*ssa.IndexAddr); isIA {
								if f, isF := core.LoadedField(ia.X); isF && f == a.WorkQueue {
									if k, isC := core.ConstInt(ia.Index); isC && k == 0 && core.Dominates(ia, st) {
										headRead = true
									}
								}
							}
						}
					}
					for _, ed := range dominatingEdges(st) {
						d := describeCond(ed)
						q := "len " + a.WorkQueue.String()
						if d == q+"==1" || c02LenMinusKIsOne(ed, a) {
							ok = true
						}
						// "not more than one" together with the head having been read is "exactly one"
						if headRead && (d == q+"<=1" || d == q+"<2" || d == "!cond("+q+">1)" || d == "!cond(("+q+">1))") {
							ok = true
						}
					}
					why = "reset to the empty buffer prefix is only a drop-head when exactly one item is queued"
				}
			case shape == "nil":
				ok = p.Within(ac.Fn, a.Close)
				why = "nil (closing) only in closeFn"
			default:
				why = "unexpected value shape"
			}
			r.Check(ok, rule, fn, "store("+a.WorkQueue.String()+")="+shape, p.InstrPos(st), "store is one of the FIFO shapes in its designated function", "work queue store breaks the FIFO discipline: "+why)
		case "load":
			ld := ac.Instr.(ssa.Value)
			if refs := ld.Referrers(); refs != nil {
				for _, rf := range *refs {
					if ia, ok := rf.(*ssa.IndexAddr); ok {
						i, isC := core.ConstInt(ia.Index)
						r.Check(isC && i == 0, rule, fn, "element-read("+a.WorkQueue.String()+")", p.InstrPos(ia), "only the head element is read", "an element other than the head is taken from the work queue")
					}
				}
			}
		}
	}

}

// c02LenMinusKIsOne: the edge of `len(workqueue)-k == c` (or the false edge of
// `!=`) with k+c == 1 - "n := len(q)-1; if n == 0" is "exactly one item queued".
func c02LenMinusKIsOne(ed edgeCond, a *svcAnchors) bool {
	bo, ok := ed.If.Cond.(*ssa.BinOp)
	if !ok || (bo.Op != token.EQL && bo.Op != token.NEQ) {
		return false
	}
	if (bo.Op == token.EQL) != (ed.Succ == 0) {
		return false
	}
	c, ok := core.ConstInt(bo.Y)
	if !ok {
		return false
	}
	sub, ok := bo.X.(*ssa.BinOp)
	if !ok || sub.Op != token.SUB {
		return false
	}
	k, ok := core.ConstInt(sub.Y)
	if !ok || k+c != 1 {
		return false
	}
	call, ok := sub.X.(*ssa.Call)
	if !ok || core.CalleeName(call) != "builtin:len" {
		return false
	}
	f, isF := core.LoadedField(call.Call.Args[0])
	return isF && f == a.WorkQueue
}

// c02StateWrittenOnlyByLifecycle is C02.N3.
func c02StateWrittenOnlyByLifecycle(r *core.Run, rule string, a *svcAnchors, root []*ssa.Function) {
	p := r.P
	ops, _ := stateOps(root, a)
	allowed := map[*ssa.Function]string{a.Serve: "serve", a.Close: "closeFn"}
	for _, c := range callsTo(root, a.Serve) {
		allowed[core.Outermost(c.Parent())] = "Serve entry point"
	}
	for _, c := range callsTo(root, a.Close) {
		allowed[core.Outermost(c.Parent())] = "shutdown"
	}
	// private helpers of those (a setState / transition helper) count with them
	for fn, why := range allowed {
		for _, h := range p.Helpers(fn) {
			if _, ok := allowed[h]; !ok && p.IsPrivateHelper(h) {
				allowed[h] = "helper of " + why
			}
		}
	}
	n := 0
	for _, op := range ops {
		if op.Op != "cas" && op.Op != "store" {
			continue
		}
		n++
		fn := core.Outermost(op.Fn)
		why, ok := allowed[fn]
		r.Check(ok, rule, core.FuncName(op.Fn), fmt.Sprintf("state-written-by-lifecycle-function:%s(%d)", op.Op, op.New), p.InstrPos(op.Instr), "written by "+why, "the state word is written outside start-up and shutdown: whenever it is not 'started', runWith returns without queueing - callbacks submitted while this function has parked the state are dropped although Serve is running and Shutdown has not begun (With still returns nil)")
	}
	if n == 0 {
		r.Unres(rule, "state-writes", "no write of the state word found")
	}
}
