package props

import (
	"fmt"
	"go/token"
	"go/types"
	"sort"
	"strings"

	"golang.org/x/tools/go/ssa"

	"resverif/core"
)

func init() { register("C04", c04) }

// requestTypes are the three request objects with a replied flag.
var requestTypes = []string{"Request", "getRequest", "queryRequest"}

// c04Models builds the must-reply model of each request type.
func c04Models(r *core.Run, rule string) map[string]*replyModel {
	p := r.P
	out := map[string]*replyModel{}
	root := p.FuncsOfPkg("")
	for _, tn := range requestTypes {
		flag, _, ok := flagOf(p, "", tn)
		if !ok {
			r.Unres(rule, "replied-flag("+tn+")", "no unique bool field of "+tn+" that a method stores true into")
			continue
		}
		m := &replyModel{p: p, rel: "", tname: tn, flag: flag, extraMust: map[*ssa.Function]bool{}}
		// candidates: all root-package functions that take *T as receiver or parameter
		var cands []*ssa.Function
		for _, fn := range root {
			if fn.Parent() != nil {
				continue
			}
			for _, prm := range fn.Params {
				if isPtrTo(prm.Type(), tn) {
					cands = append(cands, fn)
					break
				}
			}
		}
		m.summarise(cands)
		out[tn] = m
	}
	return out
}

// dispatcherOf resolves the dispatch role for a request type: the method of
// *T that defers a recover closure and makes a dynamic call passing *T.
func dispatcherOf(p *core.Prog, m *replyModel) []*ssa.Function {
	var out []*ssa.Function
	for _, fn := range methodsOf(p, m.rel, m.tname) {
		cl, _ := deferredRecover(fn)
		if cl == nil {
			continue
		}
		for _, c := range helperCalls(p, fn) {
			if core.IsDynamic(c) && m.takesT(c) {
				out = append(out, fn)
				break
			}
		}
	}
	return out
}

func c04(r *core.Run) {
	p := r.P
	r.Explanation = "Flag-sensitive must-reply typestate ({No,Yes} for the request's replied flag) propagated as a path-universal forward fix-point over the SSA CFG of the reply funnel, every response method, the dispatcher, its deferred recover closure and the pre-dispatch paths, with handler calls as havoc (may reply 0 or 1 times, may return or panic); plus who-may-write/who-may-publish census. Decides: on every CFG path a request that reaches processing is replied to exactly once by library code. Does not decide Conn.Publish failing, Goexit/os.Exit in handlers."
	r.NotDecided = []string{"Conn.Publish returning an error", "runtime.Goexit / os.Exit inside a handler", "that the NATS subscription delivers the message at all"}
	r.Assumptions = []string{"handlers do not call runtime.Goexit/os.Exit", "a panic inside a response method propagates to the dispatcher's deferred recover (Go semantics)"}

	r.Rule("R0", "reply funnel: in each reply method the Publish is dominated by the flag's false edge and by the store of true; the flag is written only by the funnel; Conn.Publish on a reply subject only from the funnels and the pre-response raw publish", 6)
	r.Rule("R1", "dispatcher: at every normal return the replied state is Yes, except returns dominated by 'no access handler' (documented unanswered case) or 'unknown request type' (cannot be subscribed)", 4)
	r.Rule("R2", "recover closure: deferred before any handler call; returns on recover()==nil; every other return has state Yes for any entry state; sibling closures handle the same panic-value arms", 6)
	r.Rule("R3", "pre-dispatch: every return of request processing has replied or follows the dispatcher call; every return of the message handler is a documented refusal (no reply subject / malformed subject) or follows the enqueue of processing", 4)
	r.Rule("R4", "MayReply => MustReply for every method taking the request: if it can reach the funnel, every normal return has state Yes", 30)
	r.Rule("R6", "pre-dispatch code cannot panic: no explicit panic is reachable (flag-sensitively) in request processing or the library functions it calls before the dispatcher's recover is installed", 2)
	r.Rule("R7", "requests are not parked on an orphaned work item (shared with C01.H1): the group registry is re-created before the workers of each run and the service is declared stopped only after all workers exited; otherwise, after a Shutdown with queued work and a restart, every request for that resource is appended to a work item no worker will run and is never answered", 2)
	r.Rule("R8", "one delivery per request (shared with C09.S3): the loop that subscribes to get/call/auth subjects skips subjects covered by another subscribed subject, judged after the method wildcard was appended; two overlapping subscriptions deliver a request twice and it is answered twice", 1)
	r.Rule("R9", "no queued request is dropped (shared with C02.Q3): the service work queue is only ever tail-appended, head-dropped ([1:] of itself, or reset to the empty buffer prefix when exactly one item is queued), initialised and closed; any other store (a bounded copy, a truncation) can discard queued work items under a burst, and the requests they hold are never answered", 5)
	r.Rule("R10", "the lookup entry cannot panic on a short name: in Mux.GetHandler (called on the listener goroutine, where nothing recovers) every non-constant index or slice bound applied to a string is related to that string's length by a dominating comparison", 2)
	r.Rule("R5", "every handler call (dynamic call passing a request object) lies in a function that defers a recover closure in its entry block", 3)

	models := c04Models(r, "R0")
	root := p.FuncsOfPkg("")
	if sa, se := queueEngine(r, "R7"); se != nil {
		c01Restart(r, "R7", sa, root)
		c02WorkQueueShape(r, "R9", sa, root)
		r.Rule("R12", "no queued request is dropped or handled twice inside a group (shared with C02.Q1 / Q2): a work item's callback queue is only ever tail-appended with the submitted callback and read by len / index in the drain loop, whose counter starts at 0, is compared with the re-loaded length and advances by one per call; a drain that re-slices the queue while callbacks are still being read from its backing array lets a later append overwrite a pending request's callback (never answered) with another one (answered twice)", 6)
		c02GroupQueue(r, "R12", sa, root)
		c02Drain(r, "R12", sa)
		r.Rule("R16", "the defaults are the documented ones: where a configuration setter of the service falls back on a constant for a bad argument, the constructor initialises the same member with the same constant (sibling agreement) - the in-channel between the NATS client and the listener is the only buffer for incoming requests, and the client drops what does not fit: a constructor default of 32 instead of the documented 1024 loses every request of a burst beyond the 32nd, unanswered", 1)
		c04ConstructorDefaultsAgree(r, "R16")
		r.Rule("R15", "one set of subscriptions (shared with C09.S10): the subscribing function is called only from serve's start-up sequence - subscribing again in the reconnect handler doubles every subscription (the client replays them itself), and without a queue group every request is then answered once per copy", 1)
		if sub := subscribeFn(p); sub != nil {
			c09SubscribesOnlyAtStartUp(r, "R15", sub)
		} else {
			r.Unres("R15", "subscribe", "not resolved")
		}
		r.Rule("R14", "replies survive a reconnect: the library never configures its own connection to refuse publishes while the client is reconnecting - no nats.ReconnectBufSize with a negative constant (in nats.go a negative size is no buffer: every Publish made while reconnecting fails, and reply only logs the error after marking the request as replied), no negative constant stored to Options.ReconnectBufSize, and no nats.NoReconnect", 1)
		c04ConnectionKeepsBuffering(r, "R14")
		r.Rule("R13", "somebody answers (shared with C03.S4): the number of workers serve starts is at least one - every store to the worker-count member writes a positive constant or a value tested to be positive; with zero workers every request is queued and never handled", 2)
		if af, ok := workerCountField(p, sa); ok {
			c03WorkerCountPositive(r, "R13", af)
		} else {
			r.Unres("R13", "worker-count-member", "serve does not hand a member to WaitGroup.Add")
		}
	}
	coveringRule(r, "R8")
	c04NoBoundsPanic(r)
	r.Rule("R11", "logging cannot panic: every method invoked on the service's optional logger (an interface field that SetLogger may set to nil) is dominated by the edge on which that field was tested non-nil - the logging helpers run inside the recover closure of request processing and on the listener goroutine before the request is handed to a worker, where a nil-interface call kills the process and the request is never answered", 3)
	c04LoggerNilSafe(r, "R11")

	// ---- R0 funnel ------------------------------------------------------
	funnels := map[*ssa.Function]bool{}
	for _, tn := range requestTypes {
		c04ReplyFunnel(r, "R0", tn, models, root, funnels)
	}
	// who-may-publish: all Conn.Publish sites of the root package
	pubSites := invokes(root, "Conn", "Publish")
	r.Analysed["conn_publish_sites"] = len(pubSites)
	for _, pc := range pubSites {
		fn := pc.Parent()
		if funnels[fn] {
			continue
		}
		// non-funnel publishers must take the subject as a parameter (event/rawEvent):
		// their callers passing a Msg.Reply subject must be Timeout pre-responses only.
		subj := pc.Common().Args[0]
		if _, ok := core.Strip(subj).(*ssa.Parameter); !ok {
			r.Bad("R0", core.FuncName(fn), "non-funnel-publish-subject", p.InstrPos(pc), "Conn.Publish outside the reply funnels with a subject that is not the function's parameter: "+valDesc(subj))
			continue
		}
		for _, c := range callsTo(root, fn) {
			s0 := c.Common().Args[1]
			if f, ok := core.LoadedField(s0); ok && f.Name == "Reply" {
				// publishing on a reply subject outside the funnel: must be a pre-response (payload starts with timeout:")
				caller := c.Parent()
				okPre := false
				// the payload (possibly built by a helper) starts with the pre-response literal
				rs := core.NewResolver()
				pay := rs.R(c.Common().Args[len(c.Common().Args)-1])
				if cv, ok := pay.(*ssa.Convert); ok {
					pts := concatPartsWith(cv.X, rs)
					if len(pts) > 0 {
						if s, ok := core.ConstString(pts[0]); ok && strings.HasPrefix(s, `timeout:"`) {
							okPre = true
						}
					}
				}
				r.Check(okPre, "R0", core.FuncName(caller), "reply-subject-outside-funnel-is-pre-response", p.InstrPos(c),
					"raw publish on Msg.Reply carries a timeout pre-response", "a publish on the request's reply subject bypasses the reply funnel and is not a pre-response")
			}
		}
	}

	// ---- R1/R2/R5 dispatcher -------------------------------------------
	nDisp := 0
	type armSet = string
	closureArms := map[string]armSet{}
	for _, tn := range requestTypes {
		m := models[tn]
		if m == nil {
			continue
		}
		for _, d := range dispatcherOf(p, m) {
			nDisp++
			dn := core.FuncName(d)
			exemptWhy := func(ret *ssa.Return) string {
				var conds []string
				for _, e := range dominatingEdges(ret) {
					conds = append(conds, describeCond(e))
				}
				for _, c := range conds {
					if c == "Handler.Access==nil" {
						return "access request to a pattern registered without an access handler is left unanswered (stated in the property)"
					}
				}
				if tn == "Request" && isUnknownTypeReturn(conds) {
					return "request type is none of the dispatched constants; such a subject is never subscribed (C05.D1 checks the two sets agree)"
				}
				return ""
			}
			exemptEdgeWhy := dispatchExemptEdge(tn)
			m.exemptRet = exemptWhy
			m.Exempted = map[*ssa.Return]string{}
			res := m.flow(d, core.StateSet(0).Add(stNo))
			m.exemptRet = nil
			var resE *core.FlowResult // computed on demand: flow with edge exemptions
			edgeFlow := func() *core.FlowResult {
				if resE == nil {
					m.exemptEdge = exemptEdgeWhy
					m.exemptRet = exemptWhy // a documented reason may also sit on a return of a per-type helper
					m.ExemptedEdges = map[edgeCond]string{}
					m.Exempted = map[*ssa.Return]string{}
					resE = m.flow(d, core.StateSet(0).Add(stNo))
					m.exemptEdge = nil
					m.exemptRet = nil
					m.Exempted = nil
					for e, why := range m.ExemptedEdges {
						r.ExemptObl("R1", dn, "edge:"+describeCond(e), p.InstrPos(e.If), why)
					}
					m.ExemptedEdges = nil
				}
				return resE
			}
			for ret, why := range m.Exempted {
				var conds []string
				for _, e := range dominatingEdges(ret) {
					conds = append(conds, describeCond(e))
				}
				r.ExemptObl("R1", core.FuncName(ret.Parent()), "return:"+returnDesc(ret, conds), p.InstrPos(ret), why)
			}
			m.Exempted = nil
			for _, ret := range core.Returns(d) {
				if d.Recover != nil && ret.Block() == d.Recover {
					continue // the recover block: reached only after the deferred closure ran (R2)
				}
				st := res.Before[ret]
				if st.Empty() {
					continue
				}
				edges := dominatingEdges(ret)
				var conds []string
				for _, e := range edges {
					conds = append(conds, describeCond(e))
				}
				desc := returnDesc(ret, conds)
				exempt := exemptWhy(ret)
				switch {
				case st.Only(stYes):
					r.OK("R1", dn, "return:"+desc, p.InstrPos(ret), "state=Yes on every path to this return")
				case exempt != "":
					r.ExemptObl("R1", dn, "return:"+desc, p.InstrPos(ret), exempt)
				case d.Recover != nil && edgeFlow().Before[ret].Only(stYes):
					r.OK("R1", dn, "return:"+desc, p.InstrPos(ret), "state=Yes on every path to this return except those through the exempt edges listed for this dispatcher")
				case callersComplete(m, root, d):
					r.OK("R1", dn, "return:"+desc+":completed-by-every-caller", p.InstrPos(ret), "state="+stateStr(st)+" here, but every caller of this handler-runner reaches state Yes on all of its returns (missing-response tail lives in the caller)")
				default:
					r.Bad("R1", dn, "return:"+desc, p.InstrPos(ret), "state="+stateStr(st)+": a path reaches this return without a reply (handler returned without replying and the missing-response fallback is skipped)")
				}
			}
			// R2
			cl, def := deferredRecover(d)
			firstHandler := true
			for _, c := range helperCalls(p, d) {
				if (core.IsDynamic(c) || c.Common().IsInvoke()) && m.takesT(c) {
					if !p.DominatesIn(d, def, c) {
						firstHandler = false
					}
				}
			}
			r.Check(firstHandler, "R2", dn, "defer-before-handler-calls", p.InstrPos(def), "deferred recover closure is registered before every handler call", "a handler call is not dominated by the defer of the recover closure")
			cres := m.flow(cl, core.StateSet(0).Add(stNo).Add(stYes))
			for _, ret := range core.Returns(cl) {
				st := cres.Before[ret]
				if st.Empty() {
					continue
				}
				edges := dominatingEdges(ret)
				nilEdge := false
				var conds []string
				for _, e := range edges {
					if isRecoverNilEdge(e) {
						nilEdge = true
					}
					conds = append(conds, describeCond(e))
				}
				desc := returnDesc(ret, conds)
				switch {
				case nilEdge:
					r.ExemptObl("R2", core.FuncName(cl), "return:recover()==nil", p.InstrPos(ret), "no panic in flight: normal completion is judged by R1")
				case st.Only(stYes):
					r.OK("R2", core.FuncName(cl), "return:"+desc, p.InstrPos(ret), "state=Yes: every panic path replies iff not yet replied")
				default:
					r.Bad("R2", core.FuncName(cl), "return:"+desc, p.InstrPos(ret), "state="+stateStr(st)+": a panic value reaches this return without a reply")
				}
			}
			closureArms[tn] = typeSwitchArms(p, cl)
			// the recovered panic must not be replaced by a new one: no explicit panic reachable from the
			// closure, neither in its own body nor (flag-sensitively) in the library functions it calls.
			for _, b := range cl.Blocks {
				for _, in := range b.Instrs {
					if pn, ok := in.(*ssa.Panic); ok && !cres.Before[pn].Empty() {
						r.Bad("R2", core.FuncName(cl), "no-repanic", p.InstrPos(pn), "the recover closure panics: a handler panic would take the worker down")
					}
				}
			}
			pm := &panicModel{m: m, memo: map[panicKey]string{}}
			for _, c := range core.Calls(cl) {
				cal := c.Common().StaticCallee()
				if cal == nil || cal.Blocks == nil || cal.Pkg != d.Pkg {
					continue
				}
				why := ""
				for _, st := range cres.Before[c].List() {
					if w := pm.mayPanic(cal, st, m.takesT(c), 0); w != "" {
						why = w
					}
				}
				r.Check(why == "", "R2", core.FuncName(cl), "no-panic-below:"+core.FuncName(cal), p.InstrPos(c),
					"no explicit panic is reachable in this callee for the flag states it is called with", "a call made while recovering from a handler panic can itself panic ("+why+"): the new panic escapes the worker and takes the service down, the request stays unanswered")
			}
		}
	}
	if nDisp < 3 {
		r.Unres("R1", "dispatchers", fmt.Sprintf("found %d dispatcher methods (want one per request type)", nDisp))
	}
	// sibling agreement of the recover closures
	if len(closureArms) >= 2 {
		ref := closureArms["Request"]
		for _, tn := range requestTypes {
			if a, ok := closureArms[tn]; ok {
				r.Check(a == ref, "R2", tn, "recover-arms-agree", "-", "panic-value arms = "+a, "panic-value arms "+a+" differ from Request's "+ref)
			}
		}
	}

	// ---- R5 --------------------------------------------------------------
	for _, fn := range root {
		for _, c := range core.Calls(fn) {
			if !(core.IsDynamic(c)) {
				continue
			}
			for _, tn := range requestTypes {
				m := models[tn]
				if m == nil || !m.takesT(c) {
					continue
				}
				ok := coveredByRecover(p, c, 0)
				r.Check(ok, "R5", core.FuncName(fn), "handler-call("+tn+"):"+valDesc(c.Common().Value), p.InstrPos(c),
					"handler call is covered by a deferred recover closure of the same function", "handler call without a deferred recover in the enclosing function: a panic would kill the worker and lose the reply")
			}
		}
	}

	// ---- R3 pre-dispatch -------------------------------------------------
	mReq := models["Request"]
	if mReq != nil {
		disp := dispatcherOf(p, mReq)
		var procs []*ssa.Function
		if len(disp) == 1 {
			for _, c := range callsTo(root, disp[0]) {
				procs = append(procs, c.Parent())
			}
		}
		if len(procs) != 1 {
			r.Unres("R3", "processRequest", fmt.Sprintf("dispatcher has %d callers, want 1", len(procs)))
		} else {
			proc := procs[0]
			mReq.extraMust[disp[0]] = true
			res := mReq.flow(proc, core.StateSet(0).Add(stNo))
			for _, ret := range core.Returns(proc) {
				st := res.Before[ret]
				if st.Empty() {
					continue
				}
				var conds []string
				for _, e := range dominatingEdges(ret) {
					conds = append(conds, describeCond(e))
				}
				r.Check(st.Only(stYes), "R3", core.FuncName(proc), "return:"+returnDesc(ret, conds), p.InstrPos(ret),
					"replied or dispatched on every path", "state="+stateStr(st)+": request processing can return without a reply and without dispatching")
			}
			// ... and the dispatcher is reached only while nothing was sent yet: a path that answered (a
			// refusal sent on a request object of its own: bad payload, no handler) and falls through to
			// the dispatch answers twice - the handler's request has its own replied flag
			for _, dc := range callsTo([]*ssa.Function{proc}, disp[0]) {
				st := res.Before[dc]
				if st.Empty() {
					continue
				}
				r.Check(st.Only(stNo), "R3", core.FuncName(proc), "dispatch-only-while-unanswered", p.InstrPos(dc), "no path to the dispatcher has replied", "state="+stateStr(st)+": the dispatcher can be reached after a response was already sent on this path (an error reply for a bad payload that does not return): the handler runs and answers again - two responses to one request")
			}
			delete(mReq.extraMust, disp[0])
			// the dispatcher is only reached with a routed handler: the "access request without an
			// access handler stays unanswered" exemption speaks of a registered pattern; a request
			// whose name matches no pattern is answered (not found) before the dispatch
			{
				var mprm *ssa.Parameter
				for _, prm := range proc.Params {
					if pt, ok := prm.Type().(*types.Pointer); ok && core.TypeName(pt.Elem()) == "Match" {
						mprm = prm
					}
				}
				for _, c := range core.Calls(proc) {
					if c.Common().StaticCallee() != disp[0] {
						continue
					}
					routed := mprm == nil // no match parameter: nothing to test
					for _, ed := range dominatingEdges(c) {
						ci := core.Cond(ed.If.Cond)
						if ci.Kind != "nilcmp" || mprm == nil || core.Strip(ci.X) != ssa.Value(mprm) {
							continue
						}
						nonNil := (ci.Op == token.NEQ) == (ed.Succ == 0)
						if ci.Negate {
							nonNil = !nonNil
						}
						if nonNil {
							routed = true
						}
					}
					r.Check(routed, "R3", core.FuncName(proc), "dispatch-only-with-a-routed-handler", p.InstrPos(c), "the dispatcher is reached only on the edge where a handler pattern matched", "the dispatcher can be reached for a request whose resource name matched no registered pattern (the nil match is replaced instead of answered): such an access request falls into the 'no access handler' branch and is never answered, although that exemption only covers registered patterns")
				}
			}
			// R6: nothing between dequeue and the dispatcher's recover may panic explicitly: request
			// processing runs on a worker with no recover of its own.
			pm := &panicModel{m: mReq, memo: map[panicKey]string{}}
			for _, c := range core.Calls(proc) {
				cal := c.Common().StaticCallee()
				if cal == nil || cal.Blocks == nil || cal.Pkg != proc.Pkg || cal == disp[0] {
					continue
				}
				why := ""
				for _, st := range res.Before[c].List() {
					if w := pm.mayPanic(cal, st, mReq.takesT(c), 0); w != "" {
						why = w
					}
				}
				r.Check(why == "", "R6", core.FuncName(proc), "no-panic-before-dispatch:"+core.FuncName(cal), p.InstrPos(c),
					"no explicit panic reachable in this callee for the flag states it is called with", "request processing can panic outside any recover ("+why+"): the worker dies holding no reply for the request")
			}
			for _, b := range proc.Blocks {
				for _, in := range b.Instrs {
					if pn, ok := in.(*ssa.Panic); ok && !res.Before[pn].Empty() {
						r.Bad("R6", core.FuncName(proc), "no-explicit-panic", p.InstrPos(pn), "request processing panics outside any recover")
					}
				}
			}
			// message handler: who calls proc? must be inside a closure passed to the enqueue function
			for _, c := range callsTo(root, proc) {
				cl := c.Parent()
				if cl.Parent() == nil {
					r.Bad("R3", core.FuncName(cl), "process-called-outside-enqueue-closure", p.InstrPos(c), "request processing is called directly, not from a callback handed to the per-group enqueue function")
					continue
				}
				h := cl.Parent()
				// the closure must be an argument of a static call in h (the enqueue), and every return of h
				// must be dominated by that call or by a documented refusal edge.
				var enq ssa.CallInstruction
				for _, hc := range core.Calls(h) {
					for _, a := range hc.Common().Args {
						if mc, ok := a.(*ssa.MakeClosure); ok && mc.Fn == cl {
							enq = hc
						}
					}
				}
				// ... or h only makes the closure for its single caller, which hands it to the enqueue
				if site := closureMaker(p, h); enq == nil && site != nil && site.Value() != nil {
					h = site.Parent()
					for _, hc := range core.Calls(h) {
						for _, a := range hc.Common().Args {
							if a == site.Value() {
								enq = hc
							}
						}
					}
				}
				if enq == nil || core.IsGo(enq) || core.IsDefer(enq) || enq.Common().StaticCallee() == nil {
					r.Bad("R3", core.FuncName(h), "closure-passed-to-enqueue", p.Pos(h.Pos()), "the processing closure is not passed to a statically-resolved enqueue call")
					continue
				}
				for _, ret := range core.Returns(h) {
					var conds []string
					refusal := ""
					for _, e := range dominatingEdges(ret) {
						d := describeCond(e)
						conds = append(conds, d)
						if d == `github.com/nats-io/nats.go.Msg.Reply==""` {
							refusal = "no reply subject: nothing to answer"
						}
						if cnd, succ := e.Norm(); true {
							if known, nonEmpty := replySubjectFact(cnd, succ == 0); known && !nonEmpty {
								refusal = "no reply subject: nothing to answer"
							}
						}
						if sepMissingCond(d) {
							refusal = "subject without the separator the subscription patterns guarantee (cannot be delivered by a conformant server)"
						}
						// the parse may sit in a helper that answers ok=false exactly where the separator is
						// missing (parts, ok := splitSubject(subj); if !ok { log; return })
						if cnd, succ := e.Norm(); refusal == "" {
							var hc *ssa.Call
							idx := 0
							switch x := cnd.(type) {
							case *ssa.Call:
								hc = x
							case *ssa.Extract:
								hc, _ = x.Tuple.(*ssa.Call)
								idx = x.Index
							}
							if hc != nil {
								if cal := hc.Common().StaticCallee(); cal != nil && len(cal.Blocks) > 0 && cal.Pkg == h.Pkg {
									want := succ == 0
									all, n := true, 0
									for _, r2 := range core.Returns(cal) {
										if idx >= len(r2.Results) {
											all = false
											continue
										}
										for _, src := range phiSources(r2.Results[idx]) {
											if isConstBool(src.V, !want) {
												continue
											}
											n++
											onSep := false
											for _, e2 := range srcEdges(r2, src) {
												d2 := describeCond(e2)
												if sepMissingCond(d2) {
													onSep = true
												}
											}
											if !onSep || !isConstBool(src.V, want) {
												all = false
											}
										}
									}
									if all && n > 0 {
										refusal = "subject without the separator the subscription guarantees (decided by " + cal.Name() + ")"
									}
								}
							}
						}
						// the subject is split by a private helper that reports failure: every failing return
						// of the helper must be one of those separator-missing edges
						if cnd, succ := e.Norm(); true {
							// strings.Cut(subject, sep): the not-found edge is the same refusal
							if x, ok := cnd.(*ssa.Extract); ok && x.Index == 2 && succ == 1 {
								if c2, ok := x.Tuple.(*ssa.Call); ok && core.CalleeName(c2) == "strings.Cut" {
									refusal = "subject without the separator the subscription patterns guarantee (cannot be delivered by a conformant server)"
								}
							}
							var hc *ssa.Call
							idx := 0
							switch x := cnd.(type) {
							case *ssa.Call:
								hc = x
							case *ssa.Extract:
								if c2, ok := x.Tuple.(*ssa.Call); ok {
									hc, idx = c2, x.Index
								}
							}
							if hc != nil {
								if cal := hc.Common().StaticCallee(); cal != nil && len(cal.Blocks) > 0 && cal.Pkg == h.Pkg {
									want := succ == 0
									n, all := 0, true
									for _, hr := range core.Returns(cal) {
										if idx >= len(hr.Results) || isConstBool(hr.Results[idx], !want) {
											continue
										}
										n++
										okRet := false
										for _, he := range dominatingEdges(hr) {
											hd := describeCond(he)
											if sepMissingCond(hd) {
												okRet = true
											}
										}
										if !okRet {
											all = false
										}
									}
									if n > 0 && all {
										refusal = "subject without the separator the subscription patterns guarantee (cannot be delivered by a conformant server)"
									}
								}
							}
						}
					}
					switch {
					case core.Dominates(enq.(ssa.Instruction), ret):
						r.OK("R3", core.FuncName(h), "return:after-enqueue", p.InstrPos(ret), "return dominated by the enqueue of request processing")
					case refusal != "":
						r.ExemptObl("R3", core.FuncName(h), "return:"+returnDesc(ret, conds), p.InstrPos(ret), refusal)
					default:
						r.Bad("R3", core.FuncName(h), "return:"+returnDesc(ret, conds), p.InstrPos(ret), "the message handler returns without enqueueing the request and not on a documented refusal edge: the request is dropped unanswered")
					}
				}
			}
		}
	}

	// ---- R4 --------------------------------------------------------------
	nMay := 0
	for _, tn := range requestTypes {
		m := models[tn]
		if m == nil {
			continue
		}
		var fns []*ssa.Function
		for fn := range m.may {
			fns = append(fns, fn)
		}
		sort.Slice(fns, func(i, j int) bool { return core.FuncName(fns[i]) < core.FuncName(fns[j]) })
		disp := map[*ssa.Function]bool{}
		for _, d := range dispatcherOf(p, m) {
			disp[d] = true
		}
		for _, fn := range fns {
			if disp[fn] {
				continue // judged by R1
			}
			if p.IsPrivateHelper(fn) && judgedByCallers(p, m, fn, disp, map[*ssa.Function]bool{}) {
				nMay++
				r.OK("R4", core.FuncName(fn), "private-helper-judged-in-callers", p.Pos(fn.Pos()), "a private helper: its body is analysed in place in every caller (dispatcher, recover function or response method), whose own obligation covers it")
				continue
			}
			nMay++
			if m.must[fn] {
				r.OK("R4", core.FuncName(fn), "may-reply=>must-reply", p.Pos(fn.Pos()), "every normal return has state Yes (entry state arbitrary)")
				continue
			}
			// callers that finish the reply themselves (handleQueryRequest tail) are judged here as well:
			res := m.flow(fn, core.StateSet(0).Add(stNo).Add(stYes))
			bad := ""
			for _, ret := range core.Returns(fn) {
				if st := res.Before[ret]; !st.Empty() && !st.Only(stYes) {
					bad = p.InstrPos(ret) + " state=" + stateStr(st)
				}
			}
			// a function that only conditionally replies is acceptable iff it is the handler-running helper
			// whose every caller completes the reply (checked by running the caller's flow): executeCallback.
			if cl, _ := deferredRecover(fn); cl != nil {
				if callersComplete(m, root, fn) {
					r.OK("R4", core.FuncName(fn), "handler-runner-completed-by-callers", p.Pos(fn.Pos()), "runs the user callback under recover; every caller is MustReply")
					continue
				}
			}
			r.Bad("R4", core.FuncName(fn), "may-reply=>must-reply", p.Pos(fn.Pos()), "method can reach the reply funnel but has a normal return without a reply: "+bad)
		}
	}
	r.Analysed["may_reply_methods"] = nMay
}

// returnDesc names a return by the conditions that dominate it (semantic, not positional).
func returnDesc(ret *ssa.Return, conds []string) string {
	if len(conds) == 0 {
		return "unconditional"
	}
	sort.Strings(conds)
	// keep keys short: last 3 conditions
	if len(conds) > 6 {
		conds = conds[len(conds)-6:]
	}
	return strings.Join(conds, "&")
}

// dispatchExemptEdge gives the documented reasons for which a dispatcher may
// leave a request unanswered, attached to a branch edge (for a dispatcher
// written with a single exit the reasons cannot be read off a return).
func dispatchExemptEdge(tn string) func(edgeCond) string {
	return func(e edgeCond) string {
		conds := []string{describeCond(e)}
		for _, de := range dominatingEdges(e.If) {
			conds = append(conds, describeCond(de))
		}
		if conds[0] == "Handler.Access==nil" {
			return "access request to a pattern registered without an access handler is left unanswered (stated in the property)"
		}
		if tn == "Request" && isUnknownTypeReturn(conds) && len(conds) >= 4 {
			return "request type is none of the dispatched constants; such a subject is never subscribed (C05.D1 checks the two sets agree)"
		}
		return ""
	}
}

func isUnknownTypeReturn(conds []string) bool {
	// all dominating conditions are "rtype != <const>" and there are >= 2 of them
	n := 0
	for _, c := range conds {
		if strings.HasPrefix(c, "Request.rtype!=") {
			n++
		} else {
			return false
		}
	}
	return n >= 2
}

// typeSwitchArms renders the set of asserted types of a closure's type switch.
func typeSwitchArms(p *core.Prog, fn *ssa.Function) string {
	set := map[string]bool{}
	for _, f2 := range p.Helpers(fn) {
		for _, b := range f2.Blocks {
			for _, in := range b.Instrs {
				if ta, ok := in.(*ssa.TypeAssert); ok && ta.CommaOk {
					set[core.TypeName(ta.AssertedType)] = true
				}
			}
		}
	}
	return strings.Join(core.SortedKeys(set), ",")
}

// callersComplete: fn has at least one static caller and every caller's own
// flow (entry state No) reaches state Yes at each of its returns.
func callersComplete(m *replyModel, root []*ssa.Function, fn *ssa.Function) bool {
	n := 0
	for _, c := range callsTo(root, fn) {
		n++
		caller := c.Parent()
		res := m.flow(caller, core.StateSet(0).Add(stNo))
		for _, ret := range core.Returns(caller) {
			if st := res.Before[ret]; !st.Empty() && !st.Only(stYes) && !onNoReplySubjectEdge(ret) {
				return false
			}
		}
	}
	return n > 0
}

// onNoReplySubjectEdge: the instruction runs only when the message carries no
// reply subject - there is nobody to answer.
func onNoReplySubjectEdge(in ssa.Instruction) bool {
	for _, e := range dominatingEdges(in) {
		if describeCond(e) == `github.com/nats-io/nats.go.Msg.Reply==""` {
			return true
		}
		cnd, succ := e.Norm()
		if known, nonEmpty := replySubjectFact(cnd, succ == 0); known && !nonEmpty {
			return true // the same test spelt with len()
		}
	}
	return false
}

// panicModel answers: can an explicit panic instruction be reached in fn (or,
// through static calls within the package, below it) when entered with the
// request's replied flag in state st? Flag tests prune infeasible branches
// (reply's "already replied" panic is unreachable from state No).
type panicKey struct {
	fn     *ssa.Function
	st     int
	tracks bool
}

type panicModel struct {
	m    *replyModel
	memo map[panicKey]string
}

func (pm *panicModel) mayPanic(fn *ssa.Function, st int, tracks bool, depth int) string {
	k := panicKey{fn, st, tracks}
	if v, ok := pm.memo[k]; ok {
		return v
	}
	pm.memo[k] = "" // break recursion optimistically
	if depth > 12 || fn.Blocks == nil {
		return ""
	}
	var entry core.StateSet
	if tracks {
		entry = entry.Add(st)
	} else {
		entry = entry.Add(stNo).Add(stYes)
	}
	var res *core.FlowResult
	if tracks {
		res = pm.m.flow(fn, entry)
	} else {
		res = (&core.Flow{Fn: fn, Entry: entry}).Run()
	}
	out := ""
	for _, b := range fn.Blocks {
		for _, in := range b.Instrs {
			if res.Before[in].Empty() {
				continue
			}
			switch x := in.(type) {
			case *ssa.Panic:
				out = "explicit panic in " + core.FuncName(fn) + " at " + pm.m.p.InstrPos(x)
			case *ssa.Call:
				cal := x.Common().StaticCallee()
				if cal == nil || cal.Blocks == nil || cal.Pkg != fn.Pkg {
					continue
				}
				// a local closure captures the request: the flag stays tracked through it
				t := tracks && (pm.m.takesT(x) || cal.Parent() != nil)
				for _, s2 := range res.Before[in].List() {
					if w := pm.mayPanic(cal, s2, t, depth+1); w != "" {
						out = w
					}
				}
			}
			if out != "" {
				pm.memo[k] = out
				return out
			}
		}
	}
	return ""
}

// coveredByRecover: the handler call c lies in a function that defers a
// recover function before it, or in a private helper all of whose call sites
// are (recursively) so covered.
func coveredByRecover(p *core.Prog, c ssa.Instruction, depth int) bool {
	fn := c.Parent()
	if cl, def := deferredRecover(fn); cl != nil && core.Dominates(def, c) {
		return true
	}
	if depth > 4 || !p.IsPrivateHelper(fn) {
		return false
	}
	for _, cs := range p.CallersOf(fn) {
		if !coveredByRecover(p, cs, depth+1) {
			return false
		}
	}
	return true
}

// judgedByCallers: every caller of the private helper fn is a dispatcher, a
// recover function, a may-reply method (R4 judges it) or again such a helper.
func judgedByCallers(p *core.Prog, m *replyModel, fn *ssa.Function, disp map[*ssa.Function]bool, seen map[*ssa.Function]bool) bool {
	if seen[fn] {
		return true
	}
	seen[fn] = true
	for _, c := range p.CallersOf(fn) {
		caller := core.Outermost(c.Parent())
		buildsT := false
		for _, b := range caller.Blocks {
			for _, in := range b.Instrs {
				if al, ok := in.(*ssa.Alloc); ok && core.TypeName(al.Type()) == qual(m.rel, m.tname) {
					buildsT = true
				}
			}
		}
		switch {
		case disp[caller], m.may[caller] && !p.IsPrivateHelper(caller), buildsT:
			// (the function that builds the request object runs the whole exchange: R3 / C15.R1 judge it)
			continue
		case p.IsPrivateHelper(caller):
			if !judgedByCallers(p, m, caller, disp, seen) {
				return false
			}
		default:
			// e.g. the deferred recover function of a dispatcher, or pre-dispatch processing (R3)
			isRecover := false
			for _, cc := range core.Calls(caller) {
				if core.CalleeName(cc) == "builtin:recover" {
					isRecover = true
				}
			}
			// the function that builds the request object runs the whole exchange (R3 / C15.R1 judge it)
			builds := false
			for _, b := range caller.Blocks {
				for _, in := range b.Instrs {
					if al, ok := in.(*ssa.Alloc); ok && core.TypeName(al.Type()) == qual(m.rel, m.tname) {
						builds = true
					}
				}
			}
			if !isRecover && !m.may[caller] && !builds {
				return false
			}
		}
	}
	return true
}

// replyFunnel: the reply funnel for a flag setter. The flag may be set by a
// small private helper of the reply method ("mark as replied"): the funnel is
// then the method that calls it and publishes.
func replyFunnel(p *core.Prog, setter *ssa.Function) *ssa.Function {
	funnel := setter
	hasPublish := func(fn *ssa.Function) bool { return len(invokes([]*ssa.Function{fn}, "Conn", "Publish")) > 0 }
	for d := 0; d < 3 && !hasPublish(funnel) && p.IsPrivateHelper(funnel); d++ {
		var callers []*ssa.Function
		for _, c := range p.CallersOf(funnel) {
			if o := c.Parent(); len(callers) == 0 || callers[len(callers)-1] != o {
				callers = append(callers, o)
			}
		}
		if len(callers) != 1 {
			break
		}
		funnel = callers[0]
	}
	return funnel
}

// c04NoBoundsPanic is C04.R10: on the listener goroutine nothing recovers a
// panic, so a lookup that indexes or slices the requested name beyond its
// length takes the service down instead of answering system.notFound. Every
// index / slice bound applied to a string in the lookup entry is related to
// that string's length by a dominating comparison (or is a loop counter
// tested against it).
func c04NoBoundsPanic(r *core.Run) {
	p := r.P
	gh := methodNamed(p, "", "Mux", "GetHandler")
	if gh == nil {
		r.Unres("R10", "Mux.GetHandler", "missing")
		return
	}
	var eq func(a, b ssa.Value, d int) bool
	eq = func(a, b ssa.Value, d int) bool {
		a, b = core.Strip(a), core.Strip(b)
		if a == b {
			return true
		}
		if d > 3 {
			return false
		}
		ca, ok1 := a.(*ssa.Call)
		cb, ok2 := b.(*ssa.Call)
		if ok1 && ok2 && core.CalleeName(ca) == "builtin:len" && core.CalleeName(cb) == "builtin:len" {
			return eq(ca.Call.Args[0], cb.Call.Args[0], d+1)
		}
		fa, ok1 := core.LoadedField(a)
		fb, ok2 := core.LoadedField(b)
		if ok1 && ok2 && fa == fb {
			return true
		}
		return sameRoot(a, b) // two loads of one local variable (a variable captured by a closure lives in a cell)
	}
	// operands a bound is made of: v itself and, for v = x +/- const, x
	parts := func(v ssa.Value) []ssa.Value {
		out := []ssa.Value{v}
		if bo, ok := core.Strip(v).(*ssa.BinOp); ok && (bo.Op == token.ADD || bo.Op == token.SUB) {
			if _, isC := core.ConstInt(bo.Y); isC {
				out = append(out, bo.X)
			}
		}
		return out
	}
	n := 0
	for _, fn := range p.Scope(gh) {
		if fn.Parent() != nil {
			continue // a local closure's bounds are its parameters / captured variables: not judged
		}
		for _, b := range fn.Blocks {
			for _, in := range b.Instrs {
				var str ssa.Value
				var bounds []ssa.Value
				switch x := in.(type) {
				case *ssa.Slice:
					if isStringType(x.X.Type()) {
						str = x.X
						for _, bd := range []ssa.Value{x.Low, x.High} {
							if bd != nil {
								bounds = append(bounds, bd)
							}
						}
					}
				case *ssa.Index:
					if isStringType(x.X.Type()) {
						str, bounds = x.X, []ssa.Value{x.Index}
					}
				case *ssa.Lookup:
					if isStringType(x.X.Type()) {
						str, bounds = x.X, []ssa.Value{x.Index}
					}
				}
				for _, bd := range bounds {
					if _, isC := core.ConstInt(bd); isC {
						if k, _ := core.ConstInt(bd); k == 0 {
							continue
						}
					}
					n++
					related := false
					for _, ed := range dominatingEdges(in) {
						cnd, _ := ed.Norm()
						bo, ok := cnd.(*ssa.BinOp)
						if !ok {
							continue
						}
						switch bo.Op {
						case token.LSS, token.LEQ, token.GTR, token.GEQ, token.EQL, token.NEQ:
						default:
							continue
						}
						for _, side := range [][2]ssa.Value{{bo.X, bo.Y}, {bo.Y, bo.X}} {
							lc, ok := core.Strip(side[0]).(*ssa.Call)
							if !ok || core.CalleeName(lc) != "builtin:len" || !eq(lc.Call.Args[0], str, 0) {
								continue
							}
							for _, pt := range parts(bd) {
								if eq(side[1], pt, 0) {
									related = true
								}
								// a loop counter: phi compared with the length
								if phi, ok := core.Strip(pt).(*ssa.Phi); ok && eq(side[1], phi, 0) {
									related = true
								}
							}
						}
					}
					// len(x) held in a variable: compare through the defining call
					if !related {
						for _, ed := range dominatingEdges(in) {
							cnd, _ := ed.Norm()
							bo, ok := cnd.(*ssa.BinOp)
							if !ok {
								continue
							}
							for _, side := range [][2]ssa.Value{{bo.X, bo.Y}, {bo.Y, bo.X}} {
								for _, pt := range parts(bd) {
									if eq(side[1], pt, 0) {
										if lc, ok := core.Strip(side[0]).(*ssa.Call); ok && core.CalleeName(lc) == "builtin:len" && eq(lc.Call.Args[0], str, 0) {
											related = true
										}
									}
								}
							}
						}
					}
					// a loop-carried position (start of the current token): every source is a constant or a
					// loop counter (+/- constant) that the function compares with the string's length
					if phi, ok := core.Strip(bd).(*ssa.Phi); ok && !related {
						all := true
						for _, src := range phiSources(phi) {
							if _, isC := core.ConstInt(src.V); isC {
								continue
							}
							okSrc := false
							for _, pt := range parts(src.V) {
								for _, b2 := range fn.Blocks {
									for _, i2 := range b2.Instrs {
										bo, ok := i2.(*ssa.BinOp)
										if !ok {
											continue
										}
										for _, side := range [][2]ssa.Value{{bo.X, bo.Y}, {bo.Y, bo.X}} {
											if lc, ok := core.Strip(side[0]).(*ssa.Call); ok && core.CalleeName(lc) == "builtin:len" && eq(lc.Call.Args[0], str, 0) && eq(side[1], pt, 0) {
												okSrc = true
											}
										}
									}
								}
							}
							if !okSrc {
								all = false
							}
						}
						related = all
					}
					r.Check(related, "R10", core.FuncName(fn), "bound-related-to-length:"+valDesc(bd), p.InstrPos(in), "the index / slice bound was compared with the string's length on the way here", "the requested name is indexed or sliced at "+valDesc(bd)+" without that bound having been compared with the name's length: a request for a shorter name panics on the listener goroutine (nothing recovers there), the request is never answered and Serve goes down")
				}
			}
		}
	}
	r.Analysed["lookup_entry_bounds"] = n
}

// c04LoggerNilSafe: invokes on the service's logger field are guarded by a
// non-nil test of that field.
func c04LoggerNilSafe(r *core.Run, rule string) {
	p := r.P
	var lf core.Field
	n := 0
	if st, ok := structType(p, "", "Service"); ok {
		for i := 0; i < st.NumFields(); i++ {
			it, isI := st.Field(i).Type().Underlying().(*types.Interface)
			if !isI {
				continue
			}
			for j := 0; j < it.NumMethods(); j++ {
				if it.Method(j).Name() == "Errorf" {
					lf = core.Field{Struct: "Service", Name: st.Field(i).Name()}
					n++
				}
			}
		}
	}
	if n != 1 {
		r.Unres(rule, "Service.<logger>", fmt.Sprintf("%d interface fields with an Errorf method", n))
		return
	}
	for _, fn := range p.FuncsOfPkg("") {
		for _, c := range core.Calls(fn) {
			if !c.Common().IsInvoke() {
				continue
			}
			f, ok := core.LoadedField(c.Common().Value)
			if !ok || f != lf {
				continue
			}
			guarded := false
			for _, ed := range dominatingEdges(c) {
				ci := core.Cond(ed.If.Cond)
				if ci.Kind != "nilcmp" || !ci.HasFld || ci.Field != lf {
					continue
				}
				nonNil := (ci.Op == token.NEQ) == (ed.Succ == 0)
				if ci.Negate {
					nonNil = !nonNil
				}
				if nonNil {
					guarded = true
				}
			}
			r.Check(guarded, rule, core.FuncName(fn), "logger."+c.Common().Method.Name()+"-behind-non-nil-test", p.InstrPos(c), "the logger was tested non-nil on every path to the call", "the logger is called on a path on which it was not tested non-nil (SetLogger(nil) is documented): a nil-interface call panics - in the recover closure of request processing or on the listener goroutine this kills the process and the request stays unanswered")
		}
	}
}

// c04ReplyFunnel: the reply funnel of one request type (C04.R0; shared with
// C15.R2 for the query request).
func c04ReplyFunnel(r *core.Run, rule, tn string, models map[string]*replyModel, root []*ssa.Function, funnels map[*ssa.Function]bool) {
	p := r.P
	m := models[tn]
	if m == nil {
		return
	}
	_, setters, _ := flagOf(p, "", tn)
	// who-may-write(flag): stores anywhere in the root package
	acc := core.FieldAccesses(root, func(f core.Field) bool { return f == m.flag })
	writers := map[string]bool{}
	for _, a := range acc {
		if a.Write {
			// the flag's address handed to a helper that only reads through it is a read
			if strings.HasPrefix(a.Kind, "addr-call") {
				if c, ok := a.Instr.(ssa.CallInstruction); ok {
					if cal := c.Common().StaticCallee(); cal != nil && len(cal.Blocks) > 0 {
						readOnly := true
						for i, arg := range c.Common().Args {
							if arg != a.Addr || i >= len(cal.Params) {
								continue
							}
							prm := cal.Params[i]
							if prm.Referrers() != nil {
								for _, rf := range *prm.Referrers() {
									switch x := rf.(type) {
									case *ssa.UnOp, *ssa.DebugRef:
									case *ssa.Store:
										if x.Addr == ssa.Value(prm) || x.Val == ssa.Value(prm) {
											readOnly = false
										}
									default:
										readOnly = false
									}
								}
							}
						}
						if readOnly {
							continue
						}
					}
				}
			}
			writers[core.FuncName(a.Fn)] = true
		}
	}
	ws := core.SortedKeys(writers)
	if len(setters) != 1 {
		r.Bad(rule, tn, "single-flag-writer", "-", fmt.Sprintf("flag %s is set true by %d methods", m.flag, len(setters)))
		return
	}
	funnel := replyFunnel(p, setters[0])
	funnels[funnel] = true
	// the publishing step may sit in a private helper that only the funnel calls (publishReply): it is
	// part of the funnel
	funnelUnit := funnelWithHelpers(p, funnel)
	for _, h := range funnelUnit {
		funnels[h] = true
	}
	inFunnel := map[string]bool{}
	for _, h := range p.Helpers(funnel) {
		inFunnel[core.FuncName(h)] = true
	}
	onlyFunnel := len(ws) > 0
	for _, w := range ws {
		if !inFunnel[w] {
			onlyFunnel = false
		}
	}
	r.Check(onlyFunnel, rule, core.FuncName(funnel), "who-may-write("+m.flag.String()+")", p.Pos(funnel.Pos()),
		"only writer is the funnel", "flag written by "+strings.Join(ws, ", "))
	// inside the funnel: flag test then store(true) then publish
	var store *ssa.Store
	for _, h := range p.Helpers(funnel) {
		for _, b := range h.Blocks {
			for _, in := range b.Instrs {
				if st, ok := in.(*ssa.Store); ok && isConstBool(st.Val, true) {
					if f, ok := core.FieldOf(st.Addr); ok && f == m.flag {
						store = st
					}
				}
			}
		}
	}
	guarded := false
	if store != nil {
		for _, e := range ctxEdges(p, store, funnel, 0) {
			for _, d := range impliedConds(e, 0) {
				if d == "!"+m.flag.String() {
					guarded = true
				}
			}
		}
	}
	r.Check(guarded, rule, core.FuncName(funnel), "store-true-guarded-by-!flag", p.InstrPos(store),
		"store of true is dominated by the false edge of the flag test (second reply is refused)", "the flag is set without first testing it: a second reply would be published")
	pubs := invokes(funnelUnit, "Conn", "Publish")
	// typestate for the case where test and store live in a bool helper (`if !r.claimReply() { return }`):
	// 1 = the flag was stored true in this activation of the funnel
	var flowRes *core.FlowResult
	if store != nil {
		fl := &core.Flow{Fn: funnel, Entry: core.StateSet(0).Add(0), Tags: true, Inline: func(cal *ssa.Function) bool { return p.IsPrivateHelper(cal) && cal.Pkg == funnel.Pkg }}
		fl.Transfer = func(in ssa.Instruction, st int) core.StateSet {
			if in == ssa.Instruction(store) {
				return core.StateSet(0).Add(1)
			}
			return core.StateSet(0).Add(st)
		}
		flowRes = fl.Run()
	}
	for _, pc := range pubs {
		ok := store != nil && p.DominatesIn(funnel, store, pc)
		if !ok && flowRes != nil {
			if bs := flowRes.Before[pc]; !bs.Empty() && bs.Only(1) {
				ok = true
			}
		}
		r.Check(ok, rule, core.FuncName(funnel), "publish-after-store-true", p.InstrPos(pc),
			"Conn.Publish dominated by flag test + store(true)", "Conn.Publish not dominated by the flag store: may publish twice")
	}
	if tn != "getRequest" && len(pubs) != 1 {
		r.Bad(rule, core.FuncName(funnel), "exactly-one-publish", p.Pos(funnel.Pos()), fmt.Sprintf("%d Conn.Publish calls in the funnel", len(pubs)))
	}
	// the true edge must not publish: every Publish is dominated by !flag (covered above via store dominance)

}

// c04ConnectionKeepsBuffering is C04.R14: the options the library itself
// hands to the NATS client.
func c04ConnectionKeepsBuffering(r *core.Run, rule string) {
	p := r.P
	isNats := func(pk *ssa.Package) bool {
		return pk != nil && strings.HasSuffix(pk.Pkg.Path(), "nats-io/nats.go")
	}
	nConn, nOpt := 0, 0
	for _, fn := range p.FuncsOfPkg("") {
		for _, b := range fn.Blocks {
			for _, in := range b.Instrs {
				switch x := in.(type) {
				case ssa.CallInstruction:
					cal := x.Common().StaticCallee()
					if cal == nil || !isNats(cal.Pkg) {
						continue
					}
					switch cal.Name() {
					case "Connect":
						nConn++
					case "NoReconnect":
						nOpt++
						r.Bad(rule, core.FuncName(fn), "option:NoReconnect", p.InstrPos(x), "the library's own connection is told not to reconnect: after a momentary disconnect every later reply is dropped")
					case "ReconnectBufSize":
						nOpt++
						if len(x.Common().Args) == 1 {
							if k, ok := core.ConstInt(x.Common().Args[0]); ok && k < 0 {
								r.Bad(rule, core.FuncName(fn), "option:ReconnectBufSize<0", p.InstrPos(x), "nats.ReconnectBufSize with a negative size disables the reconnect buffer (it does not make it unlimited): every Publish made while the client is reconnecting fails with ErrReconnectBufExceeded; reply has already marked the request as replied and only logs the error, so a request whose handler finishes during the reconnect gets no response at all")
							}
						}
					default:
						if cal.Signature.Results().Len() == 1 && strings.HasSuffix(core.TypeName(cal.Signature.Results().At(0).Type()), ".Option") {
							nOpt++
						}
					}
				case *ssa.Store:
					fa, ok := x.Addr.(*ssa.FieldAddr)
					if !ok {
						continue
					}
					var bt types.Type = fa.X.Type()
					if pt, isP := bt.Underlying().(*types.Pointer); isP {
						bt = pt.Elem()
					}
					st, ok := bt.Underlying().(*types.Struct)
					if !ok || st.Field(fa.Field).Name() != "ReconnectBufSize" || !strings.HasSuffix(core.TypeName(bt), "nats.Options") {
						continue
					}
					nOpt++
					if k, ok := core.ConstInt(x.Val); ok && k < 0 {
						r.Bad(rule, core.FuncName(fn), "option:ReconnectBufSize<0", p.InstrPos(x), "Options.ReconnectBufSize is set to a negative size, which disables the reconnect buffer: every reply published while the client is reconnecting is lost")
					}
				}
			}
		}
	}
	if nConn == 0 {
		r.Unres(rule, "nats.Connect", "the library does not connect on its own (rule anchor lost)")
		return
	}
	r.OK(rule, "connection-options", "reconnect-buffer-kept", "-", fmt.Sprintf("%d nats.Connect call(s), %d option(s) inspected: none disables reconnecting or the reconnect buffer", nConn, nOpt))
}

// c04ConstructorDefaultsAgree is C04.R16.
func c04ConstructorDefaultsAgree(r *core.Run, rule string) {
	p := r.P
	ctor := map[core.Field][]int64{}
	setter := map[core.Field][]int64{}
	where := map[core.Field]ssa.Instruction{}
	for _, fn := range p.FuncsOfPkg("") {
		if fn.Parent() != nil {
			continue
		}
		isCtor := fn.Signature.Recv() == nil && strings.HasPrefix(fn.Name(), "New") && fn.Signature.Results().Len() == 1 && strings.HasSuffix(core.TypeName(fn.Signature.Results().At(0).Type()), "Service")
		isSetter := fn.Signature.Recv() != nil && core.TypeName(fn.Signature.Recv().Type()) == "Service" && strings.HasPrefix(fn.Name(), "Set")
		if !isCtor && !isSetter {
			continue
		}
		for _, in := range instrsOf(fn) {
			st, ok := in.(*ssa.Store)
			if !ok {
				continue
			}
			f, ok := core.FieldOf(st.Addr)
			if !ok || f.Struct != "Service" {
				continue
			}
			// the constants the member can receive: stored directly, or handed to a helper of the
			// package that chooses between the argument and a default (positiveOrDefault(n, 1024))
			var consts []int64
			for _, src := range phiSources(st.Val) {
				if k, isK := core.ConstInt(src.V); isK {
					consts = append(consts, k)
					continue
				}
				if hc, isC := core.Strip(src.V).(*ssa.Call); isC {
					if cal := hc.Common().StaticCallee(); cal != nil && cal.Pkg == fn.Pkg && len(cal.Blocks) > 0 {
						for _, a := range hc.Common().Args {
							if k, isK := core.ConstInt(a); isK {
								consts = append(consts, k)
							}
						}
					}
				}
			}
			for _, k := range consts {
				if isCtor {
					ctor[f] = append(ctor[f], k)
					where[f] = st
				} else {
					setter[f] = append(setter[f], k)
				}
			}
		}
	}
	n := 0
	for f, cs := range ctor {
		ss := setter[f]
		if len(ss) == 0 {
			continue
		}
		n++
		agree := true
		for _, c := range cs {
			found := false
			for _, s2 := range ss {
				if s2 == c {
					found = true
				}
			}
			if !found {
				agree = false
			}
		}
		r.Check(agree, rule, "NewService", "constructor-default=setter-default("+f.String()+")", p.InstrPos(where[f]), fmt.Sprintf("constructor stores %v, the setter falls back on %v", cs, ss), fmt.Sprintf("the constructor initialises %s with %v while its setter's fallback default is %v: the service runs with another default than the documented one", f.String(), cs, ss))
	}
	if n == 0 {
		r.Unres(rule, "NewService/<setters>", "no member initialised by the constructor that a setter defaults with a constant")
	}
}

// funnelWithHelpers: a reply funnel together with the private helpers that
// only the funnel (or such a helper) calls.
func funnelWithHelpers(p *core.Prog, funnel *ssa.Function) []*ssa.Function {
	unit := []*ssa.Function{funnel}
	if funnel == nil {
		return nil
	}
	for _, h := range p.Helpers(funnel)[1:] {
		only := true
		for _, c := range p.CallersOf(h) {
			inUnit := false
			for _, u := range unit {
				if c.Parent() == u {
					inUnit = true
				}
			}
			if !inUnit {
				only = false
			}
		}
		if only {
			unit = append(unit, h)
		}
	}
	return unit
}

// sepMissingCond: the rendered condition says that strings.IndexByte /
// LastIndexByte found no separator (< 0, <= -1 or == -1).
func sepMissingCond(d string) bool {
	for _, fn := range []string{"call:strings.IndexByte", "call:strings.LastIndexByte"} {
		for _, op := range []string{"<0", "<=-1", "==-1"} {
			if strings.HasPrefix(d, fn+op) {
				return true
			}
		}
	}
	return false
}
