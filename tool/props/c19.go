package props

import (
	"fmt"
	"go/token"
	"go/types"
	"strings"

	"golang.org/x/tools/go/ssa"

	"resverif/core"
)

func init() { register("C19", c19) }

func c19(r *core.Run) {
	p := r.P
	rel := "resprot"
	r.Explanation = "Path obligations on SendRequest: the inbox subscription obtained on the success edge of ChanSubscribe is released by a deferred Unsubscribe that is registered before any later return (every later return runs the deferred calls); each of the three failure edges (marshal, subscribe, publish) stores InternalError(err) into the response and returns without entering the select loop; in the loop the timer arm returns ErrTimeout, the non-pre-response arm returns ParseResponse of the message, and the pre-response arm, on the successfully-parsed edge only, stops the timer, installs a new timer of exactly the announced milliseconds and calls every extension callback with that duration - with no further condition in front of it. The pre-response key agrees with the literal both service Timeout methods emit. Wall-clock behaviour is not decided."
	r.NotDecided = []string{"elapsed time / ordering of arrivals", "behaviour of the Conn implementation"}
	r.Assumptions = []string{"time.Timer and select semantics", "a deferred call runs on every return after its registration"}

	r.Rule("U1", "release: Unsubscribe on the subscription returned by ChanSubscribe is deferred on the success edge before any later return; no return between the successful subscribe and the defer", 2)
	r.Rule("E1", "failures: the marshal, subscribe and publish error edges each store InternalError(err) in the response and return before the select loop", 3)
	r.Rule("T1", "loop: the timer arm returns the timeout error; a message that is not a pre-response is returned through ParseResponse; a parsed timeout pre-response unconditionally stops the timer, installs a timer of the announced duration (ms) and calls every extension callback with it", 5)
	r.Rule("V1", "vocabulary: the pre-response key looked up by the client equals the key of the literal both service Timeout methods emit", 1)

	fn := p.Func(rel + ".SendRequest")
	if fn == nil {
		r.Unres("U1", "resprot.SendRequest", "missing")
		return
	}
	fname := core.FuncName(fn)
	// anchors: the steps may sit in private helpers of SendRequest (subscribeInbox, publishRequest,
	// awaitResponse ...). subInv / pubInv are the invokes themselves, subCall / pubCall the
	// instructions of SendRequest that stand for them (the invoke, or the call of the helper), wf the
	// function that holds the wait loop.
	var subInv, pubInv, subCall, pubCall, marshal ssa.CallInstruction
	var sel *ssa.Select
	wf := fn
	liftOne := func(c ssa.CallInstruction) ssa.CallInstruction {
		if c == nil {
			return nil
		}
		ls := p.Lift(c, fn)
		if len(ls) != 1 {
			return nil
		}
		lc, _ := ls[0].(ssa.CallInstruction)
		return lc
	}
	for _, h := range p.Helpers(fn) {
		for _, c := range core.Calls(h) {
			cc := c.Common()
			if cc.IsInvoke() && cc.Method.Name() == "ChanSubscribe" {
				subInv = c
			}
			if cc.IsInvoke() && cc.Method.Name() == "PublishRequest" {
				pubInv = c
			}
		}
		for _, b := range h.Blocks {
			for _, in := range b.Instrs {
				if s, ok := in.(*ssa.Select); ok {
					// the wait loop's select: blocking, on the timer and the inbox, and on a cycle; a
					// second (polling) select elsewhere does not move the anchor
					better := sel == nil || (s.Blocking && len(s.States) >= 2 && core.Reaches(s, s) && !(sel.Blocking && len(sel.States) >= 2 && core.Reaches(sel, sel)))
					if better {
						sel, wf = s, h
					}
				}
			}
		}
	}
	subCall, pubCall = liftOne(subInv), liftOne(pubInv)
	for _, c := range core.Calls(fn) {
		cc := c.Common()
		if cal := cc.StaticCallee(); cal != nil && cal.String() == "encoding/json.Marshal" {
			marshal = c
		} else if cal != nil && len(cal.Blocks) > 0 && cal.Pkg == fn.Pkg && cal.Signature.Results().Len() == 2 {
			for _, hc := range core.Calls(cal) {
				if hcal := hc.Common().StaticCallee(); hcal != nil && hcal.String() == "encoding/json.Marshal" && marshal == nil {
					marshal = c // request marshalling extracted into a helper
				}
			}
		}
	}
	if subCall == nil || pubCall == nil || marshal == nil || sel == nil {
		r.Unres("U1", "SendRequest-anchors", fmt.Sprintf("subscribe=%v publish=%v marshal=%v select=%v", subCall != nil, pubCall != nil, marshal != nil, sel != nil))
		return
	}
	// the results of a step as SendRequest sees them, by type (a helper may return more values
	// than the invoke it wraps)
	resultOfType := func(site ssa.CallInstruction, want func(string) bool) ssa.Value {
		v := site.Value()
		if v == nil {
			return nil
		}
		if _, isTuple := v.Type().(*types.Tuple); !isTuple {
			if want(types.TypeString(v.Type(), nil)) {
				return v
			}
			return nil
		}
		if v.Referrers() == nil {
			return nil
		}
		for _, rf := range *v.Referrers() {
			if ex, ok := rf.(*ssa.Extract); ok && want(types.TypeString(ex.Type(), nil)) {
				return ex
			}
		}
		return nil
	}
	isErrT := func(t string) bool { return t == "error" }
	isSubT := func(t string) bool { return strings.HasSuffix(t, "nats.go.Subscription") }
	subErr, subVal := resultOfType(subCall, isErrT), resultOfType(subCall, isSubT)
	// a subscribing helper hands on the invoke's own subscription and error
	if subCall != subInv {
		h := subInv.Parent()
		okH := true
		for _, ret := range core.Returns(h) {
			for _, rv := range ret.Results {
				ts := types.TypeString(rv.Type(), nil)
				if !isErrT(ts) && !isSubT(ts) {
					continue
				}
				if c, isC := rv.(*ssa.Const); isC && c.IsNil() {
					continue
				}
				if ex, ok := rv.(*ssa.Extract); !ok || ex.Tuple != subInv.Value() {
					okH = false
				}
			}
		}
		r.Check(okH, "U1", core.FuncName(h), "subscribe-helper-returns-the-invoke's-subscription-and-error", p.InstrPos(subInv), "the helper hands on what ChanSubscribe returned", "the subscribing helper returns something else than the subscription / error of its ChanSubscribe call")
	}
	// the wait loop in a helper: SendRequest returns its result, after the release was deferred
	if wf != fn {
		tail := false
		for _, c := range core.Calls(fn) {
			if c.Common().StaticCallee() != wf || c.Value() == nil {
				continue
			}
			for _, ret := range core.Returns(fn) {
				if len(ret.Results) == 1 && unspill(ret.Results[0]) == c.Value() || (len(ret.Results) == 1 && ret.Results[0] == c.Value()) {
					tail = true
				}
			}
		}
		r.Check(tail, "T1", fname, "wait-loop-result-is-returned", p.Pos(wf.Pos()), "the response of the wait loop ("+core.FuncName(wf)+") is what SendRequest returns", "the wait loop lives in "+core.FuncName(wf)+" but its result is not what SendRequest returns")
	}

	// ---- U1 --------------------------------------------------------------
	var def *ssa.Defer
	for _, b := range fn.Blocks {
		for _, in := range b.Instrs {
			if d, ok := in.(*ssa.Defer); ok {
				if cal := d.Common().StaticCallee(); cal != nil && cal.Name() == "Unsubscribe" {
					def = d
				}
			}
		}
	}
	c19InboxOpen(r, "U1", fn, subInv, subVal)
	// the inbox is this call's own: the subject subscribed to is made by the NATS client's inbox
	// generator (unique per call by construction) in this call - a home-made subject (a prefix plus
	// a counter read back after the increment) can be handed to two concurrent calls, and each then
	// receives the other's response
	{
		var subj ssa.Value
		for _, a := range subInv.Common().Args {
			if isStringType(a.Type()) {
				subj = a
				break
			}
		}
		if subj == nil {
			r.Unres("U1", fname+".<inbox-subject>", "the subscribe call has no string argument")
		} else {
			nGen, other := 0, ""
			for _, av := range paramArgs(p, subj, 0) {
				for _, lf := range valueLeaves(av, nil, 0) {
					v := core.Strip(lf.V)
					if c, ok := v.(*ssa.Call); ok {
						cal := c.Common().StaticCallee()
						if cal != nil && cal.Pkg != nil && strings.HasSuffix(cal.Pkg.Pkg.Path(), "nats-io/nats.go") && (cal.Name() == "NewInbox" || cal.Name() == "NewRespInbox") {
							nGen++
							continue
						}
						if c.Common().IsInvoke() && (c.Common().Method.Name() == "NewInbox" || c.Common().Method.Name() == "NewRespInbox") {
							nGen++
							continue
						}
					}
					other = valDesc(lf.V)
				}
			}
			r.Check(nGen > 0 && other == "", "U1", fname, "inbox-subject<-nats.NewInbox()", p.InstrPos(subInv), "the inbox subject is the client library's unique inbox, made in this call", "the inbox subject is not (only) the result of the NATS client's inbox generator ("+other+"): nothing guarantees that two concurrent SendRequest calls get different inboxes, and a shared inbox delivers every response to both")
		}
	}
	if def == nil {
		r.Bad("U1", fname, "defer-Unsubscribe", p.Pos(fn.Pos()), "the inbox subscription is never released by a deferred Unsubscribe")
	} else {
		recvOK := subVal != nil && def.Common().Args[0] == subVal
		onOK := false
		for _, ed := range dominatingEdges(def) {
			ci := core.Cond(ed.If.Cond)
			if ci.Kind == "nilcmp" {
				if subErr != nil && ci.X == subErr {
					truth := ed.Succ == 0
					if ci.Negate {
						truth = !truth
					}
					if (ci.Op == token.EQL) == truth {
						onOK = true
					}
				}
			}
		}
		r.Check(recvOK && onOK, "U1", fname, "defer-Unsubscribe-on-subscribe-success", p.InstrPos(def), "Unsubscribe of the subscription just obtained is deferred on the success edge", fmt.Sprintf("deferred Unsubscribe is not tied to the successful subscribe (receiver=%v successEdge=%v)", recvOK, onOK))
		// every return reachable from the successful subscribe that is not dominated by the defer must be on the error edge
		good := true
		why := ""
		for _, ret := range core.Returns(fn) {
			if fn.Recover != nil && ret.Block() == fn.Recover {
				continue
			}
			if !core.Reaches(subCall, ret) {
				continue
			}
			if core.Dominates(def, ret) {
				// runs deferred calls
				hasRD := false
				for _, in := range ret.Block().Instrs {
					if _, ok := in.(*ssa.RunDefers); ok {
						hasRD = true
					}
				}
				if !hasRD {
					good, why = false, "return at "+p.InstrPos(ret)+" does not run deferred calls"
				}
				continue
			}
			// must be on the subscribe-error edge
			onErr := false
			for _, ed := range dominatingEdges(ret) {
				ci := core.Cond(ed.If.Cond)
				if ci.Kind == "nilcmp" {
					if subErr != nil && ci.X == subErr {
						truth := ed.Succ == 0
						if ci.Negate {
							truth = !truth
						}
						if (ci.Op == token.NEQ) == truth {
							onErr = true
						}
					}
				}
			}
			if !onErr {
				good, why = false, "return at "+p.InstrPos(ret)+" follows a successful subscribe but precedes the deferred Unsubscribe"
			}
		}
		r.Check(good, "U1", fname, "no-return-between-subscribe-and-defer", p.InstrPos(def), "every return after a successful subscribe releases the subscription", "subscription leak: "+why)
	}

	// ---- E1 --------------------------------------------------------------
	errEdge := func(call ssa.CallInstruction, idx int, what string) {
		_ = idx
		ev := resultOfType(call, isErrT)
		if ev == nil || ev.Referrers() == nil {
			r.Bad("E1", fname, what+"-error-handled", p.InstrPos(call), "the "+what+" error is discarded")
			return
		}
		handled := false
		for _, rf := range *ev.Referrers() {
			bo, ok := rf.(*ssa.BinOp)
			if !ok || bo.Referrers() == nil {
				continue
			}
			for _, r2 := range *bo.Referrers() {
				iff, ok := r2.(*ssa.If)
				if !ok {
					continue
				}
				ci := core.Cond(iff.Cond)
				if ci.Kind != "nilcmp" {
					continue
				}
				succ := 0
				if (ci.Op == token.EQL) != ci.Negate {
					succ = 1
				}
				blk := iff.Block().Succs[succ]
				// on this edge: a Response whose Error is InternalError(ev) is returned, no select
				stored, returned, selects := false, false, false
				seen := map[*ssa.BasicBlock]bool{}
				st := []*ssa.BasicBlock{blk}
				for len(st) > 0 {
					x := st[len(st)-1]
					st = st[:len(st)-1]
					if seen[x] {
						continue
					}
					seen[x] = true
					for _, in := range x.Instrs {
						switch y := in.(type) {
						case *ssa.Return:
							returned = true
							if len(y.Results) > 0 && responseErrorIs(y.Results[0], func(v ssa.Value, rs *core.Resolver) bool {
								c, ok := v.(*ssa.Call)
								if !ok || c.Common().StaticCallee() == nil || c.Common().StaticCallee().Name() != "InternalError" {
									return false
								}
								a := rs.R(c.Common().Args[0])
								return a == ev || a == core.NewResolver().R(ev) // the resolver looks through a one-result helper (publishRequest)
							}) {
								stored = true
							}
						case *ssa.Select:
							selects = true
						}
					}
					st = append(st, x.Succs...)
				}
				handled = true
				r.Check(stored && returned && !selects, "E1", fname, what+"-error->InternalError,return", p.InstrPos(iff), "reported as an internal error without waiting", fmt.Sprintf("%s failure mishandled: storesInternalError=%v returns=%v entersWaitLoop=%v", what, stored, returned, selects))
			}
		}
		if !handled {
			r.Bad("E1", fname, what+"-error-handled", p.InstrPos(call), "the "+what+" error is never tested")
		}
	}
	// the request payload is the encoder's output (or the empty-object literal for a nil request):
	// the encoder is the only validation of the request value, so nothing else may be published
	{
		pay := pubInv.Common().Args[len(pubInv.Common().Args)-1]
		if vs := paramArgs(p, pay, 0); len(vs) == 1 {
			pay = vs[0] // the publishing helper's parameter: what SendRequest hands it
		}
		for k, src := range phiSources(pay) {
			good := false
			for _, lf := range valueLeaves(src.V, nil, 0) {
				v := core.Strip(lf.V)
				if ex, ok := v.(*ssa.Extract); ok && ex.Index == 0 {
					if mc, ok := ex.Tuple.(*ssa.Call); ok && core.CalleeName(mc) == "encoding/json.Marshal" {
						good = true
						continue
					}
				}
				if _, ok := loadedGlobal(v); ok {
					good = true
					continue
				}
				if c, ok := v.(*ssa.Const); ok && c.IsNil() {
					continue // the error result's companion value
				}
				good = false
				break
			}
			r.Check(good, "E1", fname, fmt.Sprintf("request-payload#%d<-json.Marshal-or-literal", k), p.InstrPos(pubCall), "the published request is the encoder's output or the package-level empty request", "the published request payload is "+valDesc(src.V)+", which did not pass through json.Marshal: an unencodable / invalid request is sent and waited on instead of being reported as an internal error at once")
		}
	}
	c19InternalErrorFresh(r, "E1")
	errEdge(marshal, 1, "marshal")
	errEdge(subCall, 1, "subscribe")
	errEdge(pubCall, -1, "publish")

	// ---- T1 --------------------------------------------------------------
	// timer arm
	timeoutOK := false
	for _, ret := range core.Returns(wf) {
		if len(ret.Results) == 0 {
			continue
		}
		onTimer := false
		for _, ed := range dominatingEdges(ret) {
			if condOnSelect(ed.If.Cond, sel) {
				onTimer = true
			}
		}
		if onTimer && responseErrorIs(ret.Results[0], func(v ssa.Value, rs *core.Resolver) bool {
			g, ok := loadedGlobal(v)
			return ok && g == "ErrTimeout"
		}) {
			timeoutOK = true
		}
	}
	// result-variable style: on the timer arm ErrTimeout is stored into the Error field of the
	// response variable, the loop is left (no way back to the select) and that variable is returned
	returnedCell := func(al ssa.Value) bool {
		for _, ret := range core.Returns(wf) {
			for _, rv := range ret.Results {
				u, ok := rv.(*ssa.UnOp)
				if !ok || u.Op != token.MUL {
					continue
				}
				if u.X == al {
					return true
				}
				// a function with a defer returns through a spill cell: *spill = *al; return *spill
				if sp, ok := u.X.(*ssa.Alloc); ok && sp.Referrers() != nil {
					for _, rf := range *sp.Referrers() {
						if st, ok := rf.(*ssa.Store); ok && st.Addr == ssa.Value(sp) {
							if l2, ok := st.Val.(*ssa.UnOp); ok && l2.Op == token.MUL && l2.X == al {
								return true
							}
						}
					}
				}
			}
		}
		return false
	}
	if !timeoutOK {
		for _, b := range wf.Blocks {
			for _, in := range b.Instrs {
				st, ok := in.(*ssa.Store)
				if !ok {
					continue
				}
				fa, ok := st.Addr.(*ssa.FieldAddr)
				if !ok {
					continue
				}
				f, _ := core.FieldOf(fa)
				g, isG := loadedGlobal(core.Strip(st.Val))
				if f.Name != "Error" || !isG || g != "ErrTimeout" || !returnedCell(fa.X) || core.Reaches(st, sel) {
					continue
				}
				for _, ed := range dominatingEdges(st) {
					if condOnSelect(ed.If.Cond, sel) {
						timeoutOK = true
					}
				}
			}
		}
	}
	r.Check(timeoutOK, "T1", fname, "timer-arm-returns-ErrTimeout", p.InstrPos(sel), "the deadline arm returns the timeout error", "the timer arm does not return res.ErrTimeout")
	// response arm
	parseOK := false
	for _, c := range core.Calls(wf) {
		if cal := c.Common().StaticCallee(); cal != nil && cal.Name() == "ParseResponse" {
			if f, ok := core.LoadedField(c.Common().Args[0]); ok && f.Name == "Data" {
				// its block returns, and it is reached from the select's message arm
				if _, ok := c.Block().Instrs[len(c.Block().Instrs)-1].(*ssa.Return); ok && core.Reaches(sel, c) {
					parseOK = true
				}
				// result-variable style: stored into the returned response variable, then the loop is left
				if c.Value() != nil && c.Value().Referrers() != nil && core.Reaches(sel, c) && !core.Reaches(c, sel) {
					for _, rf := range *c.Value().Referrers() {
						if st, ok := rf.(*ssa.Store); ok && st.Val == c.Value() && returnedCell(st.Addr) {
							parseOK = true
						}
					}
				}
			}
		}
	}
	// ... and no message reaches ParseResponse unclassified: on every path from a receive (any
	// select of the wait function) to a ParseResponse call a branch tests the message's data
	{
		testsData := func(b *ssa.BasicBlock) bool {
			if len(b.Instrs) == 0 {
				return false
			}
			iff, ok := b.Instrs[len(b.Instrs)-1].(*ssa.If)
			return ok && c19TestsMsgData(iff.Cond, 0)
		}
		unclassified := ""
		nParse := 0
		for _, c := range core.Calls(wf) {
			cal := c.Common().StaticCallee()
			if cal == nil || cal.Name() != "ParseResponse" || cal.Pkg != wf.Pkg {
				continue
			}
			nParse++
			for _, b := range wf.Blocks {
				for _, in := range b.Instrs {
					s2, ok := in.(*ssa.Select)
					if !ok {
						continue
					}
					recvs := false
					for _, st := range s2.States {
						if st.Dir == types.RecvOnly && strings.HasSuffix(core.TypeName(st.Chan.Type()), ".Msg") {
							recvs = true
						}
					}
					if !recvs {
						continue
					}
					for _, sc := range s2.Block().Succs {
						if reachAvoiding(sc, c.Block(), testsData, nil) && !testsData(s2.Block()) {
							unclassified = p.InstrPos(s2)
						}
					}
				}
			}
		}
		if nParse > 0 {
			r.Check(unclassified == "", "T1", fname, "message-classified-before-it-is-parsed", p.InstrPos(sel), "every path from a receive on the inbox to ParseResponse tests the message's data first", "a message received by the select at "+unclassified+" reaches ParseResponse without any test of its data: a pre-response (timeout:\"<ms>\") taken there is parsed and returned as if it were the response - SendRequest returns an internal error instead of waiting for the response within the extended deadline")
		}
	}
	c19ClassifiesByAsciiLetter(r, wf, sel, fname)
	r.Check(parseOK, "T1", fname, "response-arm-returns-ParseResponse(msg.Data)", p.InstrPos(sel), "a real response is parsed and returned", "no return of ParseResponse(msg.Data)")
	// pre-response arm (its statements may live in private helpers of SendRequest)
	var atoi, lookup, stop, newTimer ssa.CallInstruction
	reachedFromSelect := func(c ssa.Instruction) bool {
		for _, l := range p.Lift(c, wf) {
			if core.Reaches(sel, l) {
				return true
			}
		}
		return false
	}
	for _, c := range helperCalls(p, wf) {
		cal := c.Common().StaticCallee()
		if cal == nil {
			continue
		}
		switch cal.String() {
		case "strconv.Atoi":
			atoi = c
		case "(reflect.StructTag).Lookup":
			lookup = c
		case "(*time.Timer).Stop":
			stop = c
		case "time.NewTimer":
			if reachedFromSelect(c) {
				newTimer = c
			}
		}
	}
	if atoi == nil || lookup == nil || newTimer == nil {
		r.Bad("T1", fname, "pre-response-arm", p.InstrPos(sel), fmt.Sprintf("pre-response handling incomplete: atoi=%v lookup=%v newTimer=%v", atoi != nil, lookup != nil, newTimer != nil))
	} else {
		// a helper that parses the pre-response: it performs the lookup or the conversion
		parses := func(cal *ssa.Function) bool {
			return cal != nil && (cal == lookup.Parent() || cal == atoi.Parent()) && cal != wf
		}
		allowed := func(e edgeCond) bool {
			if e.If.Parent() == wf && !core.Reaches(sel, e.If) {
				return true // decided before the wait loop (failure edges are judged by E1)
			}
			c := e.If.Cond
			for {
				if u, ok := c.(*ssa.UnOp); ok && u.Op == token.NOT {
					c = u.X
					continue
				}
				break
			}
			if condOnSelect(c, sel) {
				return true
			}
			if ex, ok := c.(*ssa.Extract); ok {
				if ex.Tuple == lookup.Value() {
					return true
				}
				if call, ok := ex.Tuple.(*ssa.Call); ok && parses(call.Common().StaticCallee()) {
					return true // the parse helper's "ok" result
				}
			}
			d := describeCond(e)
			if strings.Contains(d, "Msg.Data") {
				return true
			}
			// the conversion's error tested against nil - not a test of the converted number
			if ci := core.Cond(c); ci.Kind == "nilcmp" {
				if ex, ok := core.Strip(ci.X).(*ssa.Extract); ok && types.TypeString(ex.Type(), nil) == "error" {
					if call, ok := ex.Tuple.(*ssa.Call); ok && core.CalleeName(call) == "strconv.Atoi" {
						return true
					}
				}
			}
			if call, ok := c.(*ssa.Call); ok && involvesData(call, 0) {
				return true // a classifier of the message bytes (e.g. isPreResponse(msg.Data))
			}
			if bo, ok := c.(*ssa.BinOp); ok {
				// byte class tests on msg.Data[0]|32
				if strings.Contains(valDesc(bo.X), "Msg.Data") || involvesData(bo.X, 0) {
					return true
				}
				if ex, ok := bo.X.(*ssa.Extract); ok && ex.Tuple == atoi.Value() && types.TypeString(ex.Type(), nil) == "error" {
					return true
				}
			}
			return false
		}
		var extra []string
		for _, ed := range ctxEdges(p, newTimer, wf, 0) {
			if !allowed(ed) {
				extra = append(extra, describeCond(ed))
			}
		}
		// duration = time.Duration(ms) * time.Millisecond, ms = the converted announcement
		isAnnounced := func(v ssa.Value) bool {
			bo, ok := v.(*ssa.BinOp)
			if !ok || bo.Op != token.MUL {
				return false
			}
			k, ok := core.ConstInt(bo.Y)
			if !ok || k != 1000000 {
				return false
			}
			ex, ok := core.Strip(bo.X).(*ssa.Extract)
			return ok && ex.Tuple == atoi.Value() && ex.Index == 0
		}
		durOK := true
		nAnn := 0
		d := newTimer.Common().Args[0]
		// the duration as seen in SendRequest: when the timer is (re)armed by a helper that also arms
		// the initial timer, only the call sites inside the wait loop count
		durVals := []ssa.Value{d}
		if prm, ok := d.(*ssa.Parameter); ok && newTimer.Parent() != wf {
			durVals = nil
			idx := -1
			for i, q := range prm.Parent().Params {
				if q == prm {
					idx = i
				}
			}
			for _, cs := range p.CallersOf(prm.Parent()) {
				if cs.Parent() == wf && core.Reaches(sel, cs) && idx >= 0 && idx < len(cs.Common().Args) {
					durVals = append(durVals, cs.Common().Args[idx])
				}
			}
			if len(durVals) == 0 {
				durVals = paramArgs(p, d, 0)
			}
		}
		cbVals := append([]ssa.Value{d}, durVals...) // the callbacks may be notified inside the re-arm helper, with its parameter
		for _, dv := range durVals {
			for _, lf := range valueLeaves(dv, nil, 0) {
				if isAnnounced(lf.V) {
					nAnn++
					continue
				}
				if k, ok := core.ConstInt(lf.V); ok && k == 0 {
					continue // the parse helper's "not a timeout" result, returned together with ok=false
				}
				durOK = false
			}
		}
		durOK = durOK && nAnn > 0
		r.Check(len(extra) == 0 && durOK, "T1", fname, "pre-response-restarts-timer-unconditionally", p.InstrPos(newTimer), "on a parsed timeout pre-response a timer of exactly the announced milliseconds is installed, with no further condition", fmt.Sprintf("the deadline is not always restarted with the announced duration: extra conditions %v, duration-is-announced-ms=%v", extra, durOK))
		stopped := stop != nil && p.DominatesIn(wf, stop, newTimer)
		if !stopped && stop != nil {
			// typestate: 1 = the running timer was stopped (or there is none: the nil edge of a test of
			// the timer value); every wait on the select starts a new round
			inl := map[*ssa.Function]bool{}
			for _, h := range p.Helpers(wf) {
				inl[h] = true
			}
			fl := &core.Flow{Fn: wf, Entry: core.StateSet(0).Add(0), Inline: func(cal *ssa.Function) bool { return inl[cal] && cal != wf }}
			fl.Transfer = func(in ssa.Instruction, st int) core.StateSet {
				if in == ssa.Instruction(sel) {
					return core.StateSet(0).Add(0)
				}
				if c, ok := in.(ssa.CallInstruction); ok {
					if cal := c.Common().StaticCallee(); cal != nil && cal.String() == "(*time.Timer).Stop" {
						return core.StateSet(0).Add(1)
					}
				}
				return core.StateSet(0).Add(st)
			}
			fl.BranchOn = func(cond ssa.Value, succ int, st int) (int, bool) {
				ci := core.Cond(cond)
				if ci.Kind == "nilcmp" && strings.HasSuffix(core.TypeName(ci.X.Type()), "time.Timer") {
					truth := succ == 0
					if ci.Negate {
						truth = !truth
					}
					if (ci.Op == token.EQL) == truth {
						return 1, true
					}
				}
				return st, true
			}
			fl.Branch = func(iff *ssa.If, succ int, st int) (int, bool) { return fl.BranchOn(iff.Cond, succ, st) }
			res := fl.Run()
			if bs := res.Before[newTimer]; !bs.Empty() && bs.Only(1) {
				stopped = true
			}
		}
		r.Check(stopped, "T1", fname, "old-timer-stopped-before-replacement", posOf(p, stop), "the previous timer is stopped first", "the previous timer is not stopped before it is replaced")
		// the new timer becomes the one selected on: the select's channel derives from a phi / cell
		// including the new timer (possibly as the result of the helper that creates it)
		usesNew := false
		for _, st := range sel.States {
			if chanFromTimerPhi(st.Chan, newTimer.Value(), 0) {
				usesNew = true
			}
		}
		if !usesNew {
			// the timer lives in a field of a waiter object: the select reads the field the new timer is
			// stored into, of the same object (the bases resolve to a common source)
			for _, st := range sel.States {
				var tl ssa.Value = st.Chan
				for i := 0; i < 4 && tl != nil; i++ {
					if vals, bases, ok := fieldStores(tl, p.Helpers(fn)); ok && strings.HasSuffix(types.TypeString(tl.Type(), nil), "time.Timer") {
						selBase := map[ssa.Value]bool{}
						for _, b := range paramArgs(p, tl.(*ssa.UnOp).X.(*ssa.FieldAddr).X, 0) {
							selBase[core.Strip(b)] = true
						}
						for i, v := range vals {
							if v != newTimer.Value() {
								continue
							}
							for _, b := range paramArgs(p, bases[i], 0) {
								if selBase[core.Strip(b)] {
									usesNew = true
								}
							}
						}
						break
					}
					switch x := tl.(type) {
					case *ssa.UnOp:
						tl = x.X
					case *ssa.FieldAddr:
						tl = x.X
					default:
						tl = nil
					}
				}
			}
		}
		r.Check(usesNew, "T1", fname, "select-waits-on-the-new-timer", p.InstrPos(sel), "the loop waits on the replaced timer", "the new timer is created but the loop keeps waiting on the old one")
		// callbacks
		cbOK := false
		for _, c := range helperCalls(p, wf) {
			if !core.IsDynamic(c) || len(c.Common().Args) != 1 {
				continue
			}
			isDur := false
			for _, av := range paramArgs(p, c.Common().Args[0], 0) { // the loop may sit in a helper handed the duration
				for _, dv := range cbVals {
					if av == dv || core.Strip(av) == core.Strip(dv) {
						isDur = true
					}
					for _, dv2 := range paramArgs(p, dv, 0) {
						if core.Strip(av) == core.Strip(dv2) {
							isDur = true
						}
					}
				}
			}
			if !isDur {
				continue
			}
			u, ok := c.Common().Value.(*ssa.UnOp)
			if !ok {
				continue
			}
			ia, ok := u.X.(*ssa.IndexAddr)
			if !ok {
				continue
			}
			fromParam := false
			srcs := paramArgs(p, ia.X, 0)
			if vals, _, ok := fieldStores(ia.X, p.Helpers(fn)); ok && len(vals) > 0 {
				// the callback list kept in a field of a waiter object: every store into it hands on the parameter
				srcs = nil
				for _, v := range vals {
					srcs = append(srcs, paramArgs(p, v, 0)...)
				}
				for _, src := range srcs {
					if prm, ok := src.(*ssa.Parameter); !ok || prm.Parent() != fn {
						srcs = nil
						break
					}
				}
			}
			for _, src := range srcs {
				if prm, ok := src.(*ssa.Parameter); ok && (prm.Parent() == fn || prm.Parent() == wf) {
					fromParam = true
				}
			}
			if !fromParam || !p.ReachesIn(wf, newTimer, c) {
				continue
			}
			var ex2 []string
			for _, ed := range ctxEdges(p, c, wf, 0) {
				if !allowed(ed) && !isRangeCond(ed) {
					ex2 = append(ex2, describeCond(ed))
				}
			}
			cbOK = len(ex2) == 0
		}
		r.Check(cbOK, "T1", fname, "extension-callbacks-notified-with-duration", p.InstrPos(newTimer), "every callback is called with the announced duration", "extension callbacks are not all called with the announced duration")
	}

	// ---- V1 --------------------------------------------------------------
	key := ""
	if lookup != nil {
		key, _ = core.ConstString(lookup.Common().Args[1])
	}
	lits := []string{}
	for _, tn := range []string{"Request", "queryRequest"} {
		if t := methodNamed(p, "", tn, "Timeout"); t != nil {
			for _, c := range core.Calls(t) {
				cal := c.Common().StaticCallee()
				if cal == nil || len(c.Common().Args) < 3 {
					continue
				}
				if f, ok := core.LoadedField(c.Common().Args[1]); !ok || f.Name != "Reply" {
					continue
				}
				rs := core.NewResolver()
				pay := rs.R(c.Common().Args[2])
				if cv, ok := pay.(*ssa.Convert); ok {
					pts := concatPartsWith(cv.X, rs)
					if len(pts) > 0 {
						if s0, ok := core.ConstString(pts[0]); ok && strings.HasSuffix(s0, `:"`) {
							lits = append(lits, strings.TrimSuffix(s0, `:"`))
						}
					}
				}
			}
		}
	}
	good := key != "" && len(lits) == 2
	for _, l := range lits {
		if l != key {
			good = false
		}
	}
	r.Check(good, "V1", fname, "pre-response-key-agrees-with-service", posOf(p, lookup), "client looks up "+key+", the service emits "+strings.Join(lits, ","), fmt.Sprintf("client looks up %q but the service Timeout methods emit %v", key, lits))
}

// c19InternalErrorFresh: "reported as an internal error" rests on the
// converter: every value res.InternalError returns is an Error it allocated
// itself, with the internal-error code stored into it - never an error found
// in (or unwrapped from) its argument, whose code is the argument's business.
func c19InternalErrorFresh(r *core.Run, rule string) {
	p := r.P
	fn := p.Func("InternalError")
	if fn == nil {
		r.Unres(rule, "res.InternalError", "missing")
		return
	}
	good, why := true, ""
	n := 0
	for _, ret := range core.Returns(fn) {
		if fn.Recover != nil && ret.Block() == fn.Recover {
			continue
		}
		for _, lf := range valueLeaves(ret.Results[0], nil, 0) {
			n++
			al, ok := core.Strip(lf.V).(*ssa.Alloc)
			if !ok || al.Referrers() == nil {
				good, why = false, "the value returned at "+p.InstrPos(ret)+" ("+valDesc(lf.V)+") is not an Error allocated by the converter"
				continue
			}
			code := false
			for _, rf := range *al.Referrers() {
				fa, ok := rf.(*ssa.FieldAddr)
				if !ok || fa.Referrers() == nil {
					continue
				}
				if f, ok := core.FieldOf(fa); !ok || f.Name != "Code" {
					continue
				}
				for _, r2 := range *fa.Referrers() {
					if st, ok := r2.(*ssa.Store); ok && st.Addr == ssa.Value(fa) {
						sv := st.Val
						if lf.Rs != nil {
							sv = lf.Rs.R(sv) // a constructor helper's parameter: what InternalError passes for it
						}
						if s, ok := core.ConstString(sv); ok && s == "system.internalError" {
							code = true
						}
					}
				}
			}
			if !code {
				good, why = false, "the Error returned at "+p.InstrPos(ret)+" does not get the code system.internalError"
			}
		}
	}
	r.Check(good && n > 0, rule, core.FuncName(fn), "converter-returns-a-fresh-internal-error", p.Pos(fn.Pos()), "every value InternalError returns is its own Error with code system.internalError", "a marshal / subscribe / publish failure is not always reported as an internal error: "+why)
}

func condOnSelect(c ssa.Value, sel *ssa.Select) bool {
	if bo, ok := c.(*ssa.BinOp); ok {
		if ex, ok := bo.X.(*ssa.Extract); ok && ex.Tuple == ssa.Value(sel) {
			return true
		}
	}
	return false
}

func involvesData(v ssa.Value, d int) bool {
	if d > 5 {
		return false
	}
	switch x := v.(type) {
	case *ssa.BinOp:
		return involvesData(x.X, d+1) || involvesData(x.Y, d+1)
	case *ssa.UnOp:
		if f, ok := core.LoadedField(x); ok && f.Name == "Data" {
			return true
		}
		return involvesData(x.X, d+1)
	case *ssa.IndexAddr:
		return involvesData(x.X, d+1)
	case *ssa.Call:
		for _, a := range x.Common().Args {
			if involvesData(a, d+1) {
				return true
			}
		}
	case *ssa.Convert:
		return involvesData(x.X, d+1)
	}
	return false
}

func isRangeCond(e edgeCond) bool {
	bo, ok := e.If.Cond.(*ssa.BinOp)
	if !ok || bo.Op != token.LSS {
		return false
	}
	if b2, ok := bo.X.(*ssa.BinOp); ok && b2.Op == token.ADD {
		if _, ok := b2.X.(*ssa.Phi); ok {
			return true
		}
	}
	_, ok = bo.X.(*ssa.Phi)
	return ok
}

// chanFromTimerPhi: ch is the C field of a timer value that is (a phi/cell
// including) the given new timer.
func chanFromTimerPhi(ch ssa.Value, nt ssa.Value, d int) bool {
	if d > 6 {
		return false
	}
	switch x := ch.(type) {
	case *ssa.UnOp:
		return chanFromTimerPhi(x.X, nt, d+1)
	case *ssa.FieldAddr:
		return chanFromTimerPhi(x.X, nt, d+1)
	case *ssa.Phi:
		for _, e := range x.Edges {
			if e == nt || chanFromTimerPhi(e, nt, d+1) {
				return true
			}
		}
	case *ssa.Call:
		// a helper that creates and returns the new timer
		for _, lf := range valueLeaves(x, nil, 0) {
			if lf.V == nt {
				return true
			}
		}
	case *ssa.Alloc:
		if x.Referrers() != nil {
			for _, rf := range *x.Referrers() {
				if st, ok := rf.(*ssa.Store); ok && st.Addr == ssa.Value(x) && st.Val == nt {
					return true
				}
			}
		}
	}
	return ch == nt
}

// responseErrorIs: the returned Response value (a load of a local struct -
// possibly through the result cell go/ssa spills returns into when the
// function defers - or the result of a helper building one) has its Error
// field stored from a value accepted by pred.
func responseErrorIs(v ssa.Value, pred func(ssa.Value, *core.Resolver) bool) bool {
	leaves := valueLeaves(v, nil, 0)
	if len(leaves) == 0 {
		return false
	}
	for _, lf := range leaves {
		if !structErrorIs(lf.V, lf.Rs, pred, 0) {
			return false
		}
	}
	return true
}

func structErrorIs(v ssa.Value, rs *core.Resolver, pred func(ssa.Value, *core.Resolver) bool, depth int) bool {
	if depth > 4 {
		return false
	}
	u, ok := v.(*ssa.UnOp)
	if !ok {
		// a helper call building the response
		if c, ok := v.(*ssa.Call); ok {
			for _, lf := range valueLeaves(c, rs, 0) {
				if lf.V == v {
					return false
				}
				if !structErrorIs(lf.V, lf.Rs, pred, depth+1) {
					return false
				}
			}
			return true
		}
		return false
	}
	al, ok := u.X.(*ssa.Alloc)
	if !ok || al.Referrers() == nil {
		return false
	}
	// whole-value store into the cell just before the load (defer spill / assignment)
	blk := u.Block()
	idx := -1
	for i, in := range blk.Instrs {
		if in == ssa.Instruction(u) {
			idx = i
		}
	}
	for i := idx - 1; i >= 0; i-- {
		if st, ok := blk.Instrs[i].(*ssa.Store); ok && st.Addr == ssa.Value(al) {
			return structErrorIs(st.Val, rs, pred, depth+1)
		}
	}
	found := false
	for _, rf := range *al.Referrers() {
		fa, ok := rf.(*ssa.FieldAddr)
		if !ok || fa.Referrers() == nil {
			continue
		}
		if f, ok := core.FieldOf(fa); !ok || f.Name != "Error" {
			continue
		}
		for _, r2 := range *fa.Referrers() {
			if st, ok := r2.(*ssa.Store); ok && st.Addr == ssa.Value(fa) && pred(st.Val, rs) {
				if st.Block() == u.Block() || core.Reaches(st, u) {
					found = true
				}
			}
		}
	}
	return found
}

// c19InboxOpen: the inbox can hold a message while SendRequest is busy and the
// interest lasts until SendRequest returns (C19.U1; shared with C18.V5: a
// response the service published must reach the client's parser).
func c19InboxOpen(r *core.Run, rule string, fn *ssa.Function, subCall ssa.CallInstruction, subInCaller ssa.Value) {
	p := r.P
	fname := core.FuncName(fn)
	// the inbox channel can hold a message while SendRequest is not parked in the select: the NATS
	// client delivers to channel subscriptions with a non-blocking send and drops what does not fit
	{
		chArg := subCall.Common().Args[len(subCall.Common().Args)-1]
		buffered := false
		desc := "not a channel made for this request (" + valDesc(chArg) + " - a channel that outlives the request can still hold a message of an earlier one)"
		for _, lf := range valueLeaves(chArg, nil, 0) {
			if mk, ok := lf.V.(*ssa.MakeChan); ok {
				if n, ok := core.ConstInt(mk.Size); ok {
					buffered = n >= 1
					desc = fmt.Sprintf("make(chan, %d)", n)
				}
			}
		}
		r.Check(buffered, rule, fname, "inbox-channel-is-buffered", p.InstrPos(subCall), "the inbox channel has capacity >= 1", "the inbox channel is "+desc+": a response that arrives while SendRequest is handling a pre-response (or running an extension callback) is dropped by the client's non-blocking send, and SendRequest reports a timeout although a response arrived in time")
	}
	// the interest must last until SendRequest returns: nothing but the release touches the subscription
	{
		var subV ssa.Value
		if subCall.Value() != nil && subCall.Value().Referrers() != nil {
			for _, rf := range *subCall.Value().Referrers() {
				if ex, ok := rf.(*ssa.Extract); ok && ex.Index == 0 {
					subV = ex
				}
			}
		}
		var other []string
		var walk func(v ssa.Value, depth int)
		walk = func(v ssa.Value, depth int) {
			if v == nil || v.Referrers() == nil || depth > 4 {
				return
			}
			for _, rf := range *v.Referrers() {
				switch x := rf.(type) {
				case *ssa.DebugRef:
				case *ssa.BinOp: // nil comparison
				case *ssa.Store:
					if al, ok := x.Addr.(*ssa.Alloc); ok && x.Val == v && al.Referrers() != nil {
						for _, r2 := range *al.Referrers() {
							if u, ok := r2.(*ssa.UnOp); ok {
								walk(u, depth+1)
							}
							if mc, ok := r2.(*ssa.MakeClosure); ok {
								if f, ok := mc.Fn.(*ssa.Function); ok {
									for i, b := range mc.Bindings {
										if b == ssa.Value(al) && i < len(f.FreeVars) && f.FreeVars[i].Referrers() != nil {
											for _, r3 := range *f.FreeVars[i].Referrers() {
												if u, ok := r3.(*ssa.UnOp); ok {
													walk(u, depth+1)
												}
											}
										}
									}
								}
							}
						}
					} else {
						other = append(other, "stored at "+p.InstrPos(x))
					}
				case ssa.CallInstruction:
					cal := x.Common().StaticCallee()
					if cal != nil && len(x.Common().Args) > 0 && x.Common().Args[0] == v && cal.Name() == "Unsubscribe" {
						continue
					}
					other = append(other, core.CalleeName(x)+" at "+p.InstrPos(x))
				case *ssa.Return:
					if x.Parent() == fn {
						other = append(other, "returned at "+p.InstrPos(x))
					}
					// a subscribing helper hands the subscription to SendRequest: its uses there are walked below
				default:
					other = append(other, fmt.Sprintf("%T at %s", rf, p.InstrPos(rf)))
				}
			}
		}
		walk(subV, 0)
		if subInCaller != nil && subInCaller != subV {
			walk(subInCaller, 0)
		}
		r.Check(subV != nil && len(other) == 0, rule, fname, "subscription-used-only-by-the-release", p.InstrPos(subCall), "nothing but the (deferred) Unsubscribe touches the inbox subscription: it stays active across pre-responses until SendRequest returns", "the inbox subscription is also used by "+strings.Join(other, ", ")+": ending or limiting the interest early (AutoUnsubscribe, Drain, an early Unsubscribe) drops the real response that follows a pre-response")
	}
}

// c19TestsMsgData: the condition depends on the Data member of a message
// (its length, one of its bytes, or a helper of the package handed it).
func c19TestsMsgData(v ssa.Value, d int) bool {
	if d > 6 || v == nil {
		return false
	}
	if f, ok := core.LoadedField(v); ok && f.Name == "Data" {
		return true
	}
	switch x := v.(type) {
	case *ssa.BinOp:
		return c19TestsMsgData(x.X, d+1) || c19TestsMsgData(x.Y, d+1)
	case *ssa.UnOp:
		return c19TestsMsgData(x.X, d+1)
	case *ssa.Convert:
		return c19TestsMsgData(x.X, d+1)
	case *ssa.ChangeType:
		return c19TestsMsgData(x.X, d+1)
	case *ssa.Index:
		return c19TestsMsgData(x.X, d+1)
	case *ssa.IndexAddr:
		return c19TestsMsgData(x.X, d+1)
	case *ssa.Lookup:
		return c19TestsMsgData(x.X, d+1)
	case *ssa.Slice:
		return c19TestsMsgData(x.X, d+1)
	case *ssa.Extract:
		return c19TestsMsgData(x.Tuple, d+1)
	case *ssa.Phi:
		for _, e := range x.Edges {
			if c19TestsMsgData(e, d+1) {
				return true
			}
		}
	case *ssa.Call:
		for _, a := range x.Call.Args {
			if c19TestsMsgData(a, d+1) {
				return true
			}
		}
	}
	return false
}
