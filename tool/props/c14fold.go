package props

import (
	"go/token"
	"go/types"
	"strings"

	"golang.org/x/tools/go/ssa"

	"resverif/core"
)

// c14EventsFoldedInOrder: a transformer that folds a query result's remove /
// add events into one model change (a map id -> reference or delete action)
// reproduces the new result only if the last event of an id wins: every store
// into the change map depends on the event alone (its name, the type of its
// value, the loop) - never on what the map already holds. A store skipped
// because the id is already in the map ("removed and added again: only moved")
// leaves the delete action of the earlier remove in place, and the client
// deletes an id a fresh get still returns.
func c14EventsFoldedInOrder(r *core.Run, rule string) {
	p := r.P
	n := 0
	for _, fn := range p.FuncsOfPkg("store") {
		if fn.Name() != "TransformEvents" || fn.Parent() != nil || len(fn.Blocks) == 0 {
			continue
		}
		var unit []*ssa.Function
		for _, h := range p.Helpers(fn) {
			unit = append(unit, withAnon(h)...)
		}
		// the change map: a map made in the unit that receives stores
		for _, f := range unit {
			for _, b := range f.Blocks {
				for _, in := range b.Instrs {
					mu, ok := in.(*ssa.MapUpdate)
					if !ok {
						continue
					}
					n++
					var extra []string
					for _, ed := range ctxEdges(p, mu, fn, 0) {
						if isRangeCond(ed) {
							continue
						}
						if c14CondOnEventOnly(ed.If.Cond, 0) {
							continue
						}
						extra = append(extra, describeCond(ed))
					}
					r.Check(len(extra) == 0, rule, core.FuncName(f), "change-map-store-depends-on-the-event-only", p.InstrPos(mu), "the store into the change map depends only on the event", "the store into the change map is skipped depending on "+strings.Join(extra, ", ")+": where the fold of remove / add events depends on what the map already holds, the last event of an id no longer wins - a moved id keeps the delete action of its remove, and the client deletes an id a fresh get still returns")
				}
			}
		}
	}
	if n == 0 {
		r.OKTrivial(rule, "store.TransformEvents", "change-map-store-depends-on-the-event-only", "-", "no transformer folds events into a map")
	}
}

// c14CondOnEventOnly: the condition is computed from an event (a field of it,
// the result of a type assertion on its value), constants, lengths and the
// emptiness of the event list - and from no map lookup.
func c14CondOnEventOnly(v ssa.Value, d int) bool {
	if d > 8 {
		return false
	}
	switch x := v.(type) {
	case *ssa.Const, *ssa.Parameter, *ssa.FreeVar, *ssa.Global:
		return true
	case *ssa.BinOp:
		return c14CondOnEventOnly(x.X, d+1) && c14CondOnEventOnly(x.Y, d+1)
	case *ssa.UnOp:
		if x.Op == token.ARROW {
			return false
		}
		return c14CondOnEventOnly(x.X, d+1)
	case *ssa.Extract:
		return c14CondOnEventOnly(x.Tuple, d+1)
	case *ssa.TypeAssert:
		return c14CondOnEventOnly(x.X, d+1)
	case *ssa.FieldAddr:
		return c14CondOnEventOnly(x.X, d+1)
	case *ssa.Field:
		return c14CondOnEventOnly(x.X, d+1)
	case *ssa.IndexAddr:
		return c14CondOnEventOnly(x.X, d+1) && c14CondOnEventOnly(x.Index, d+1)
	case *ssa.Index:
		return c14CondOnEventOnly(x.X, d+1) && c14CondOnEventOnly(x.Index, d+1)
	case *ssa.Phi:
		for _, e := range x.Edges {
			if _, isPhi := e.(*ssa.Phi); isPhi {
				continue
			}
			if !c14CondOnEventOnly(e, d+1) {
				return false
			}
		}
		return true
	case *ssa.Alloc:
		return true
	case *ssa.Next:
		_, isRange := x.Iter.(*ssa.Range)
		if isRange {
			return c14CondOnEventOnly(x.Iter.(*ssa.Range).X, d+1)
		}
		return false
	case *ssa.Convert, *ssa.ChangeType, *ssa.MakeInterface, *ssa.ChangeInterface:
		return c14CondOnEventOnly(core.Strip(v), d+1)
	case *ssa.Call:
		if core.CalleeName(x) == "builtin:len" {
			return c14CondOnEventOnly(x.Call.Args[0], d+1)
		}
		// a helper of the package applied to the event (asserting the type of its value, say): its
		// result depends on the event alone when no argument is a map
		if cal := x.Common().StaticCallee(); cal != nil && len(cal.Blocks) > 0 && x.Parent() != nil && cal.Pkg == x.Parent().Pkg && !x.Common().IsInvoke() {
			for _, a := range x.Common().Args {
				if _, isMap := a.Type().Underlying().(*types.Map); isMap || !c14CondOnEventOnly(a, d+1) {
					return false
				}
			}
			return true
		}
		return false
	case *ssa.Lookup:
		// indexing a string is fine; a map lookup is what the rule is about
		if _, isMap := x.X.Type().Underlying().(*types.Map); isMap {
			return false
		}
		return c14CondOnEventOnly(x.X, d+1)
	}
	return false
}
