package props

import (
	"go/constant"
	"go/token"
	"go/types"

	"golang.org/x/tools/go/ssa"

	"resverif/core"
)

// charClass is the result of analysing a bool validator over strings under
// the assumptions "the argument is a non-empty string all of whose characters
// are v" (one dataflow run per representative v; the engine prunes every branch
// that compares a character of the argument with a constant) and "the argument
// is empty". It is a may-analysis: Accept[v] means some path that looked at a
// character returns a value not known to be false.
type charClass struct {
	Accept       map[int]bool
	AcceptMid    map[int]bool // accepted as a later character behind an ordinary first one ('a')
	EmptyAccept  bool
	Extractions  int
	ByteWise     bool
	ComparesWith map[int]bool // constants a character is compared with (==, !=)
}

var charReps = func() []int {
	var out []int
	for v := 0; v <= 256; v++ {
		out = append(out, v)
	}
	return append(out, 0x7FF, 0x800, 0xFFFD, 0xFFFF, 0x10000, 0x10FFFF)
}()

func isStringType(t types.Type) bool {
	b, ok := t.Underlying().(*types.Basic)
	return ok && b.Info()&types.IsString != 0
}

func classOf(p *core.Prog, fn *ssa.Function) *charClass {
	cc := &charClass{Accept: map[int]bool{}, ComparesWith: map[int]bool{}}
	// the unit: fn plus same-package functions it reaches by plain static calls
	unit := []*ssa.Function{fn}
	inUnit := map[*ssa.Function]bool{fn: true}
	for i := 0; i < len(unit); i++ {
		for _, c := range core.Calls(unit[i]) {
			cal := c.Common().StaticCallee()
			if _, isCall := c.(*ssa.Call); !isCall || cal == nil || inUnit[cal] || len(cal.Blocks) == 0 || cal.Pkg != fn.Pkg {
				continue
			}
			inUnit[cal] = true
			unit = append(unit, cal)
		}
	}
	// string-derived and character values (fixpoint over the unit)
	strv := map[ssa.Value]bool{}
	chv := map[ssa.Value]bool{}
	root := map[ssa.Value]bool{}
	for _, prm := range fn.Params {
		if isStringType(prm.Type()) {
			strv[prm] = true
			root[prm] = true
		}
	}
	extraction := map[ssa.Instruction]bool{}
	for changed := true; changed; {
		changed = false
		mark := func(m map[ssa.Value]bool, v ssa.Value) {
			if !m[v] {
				m[v] = true
				changed = true
			}
		}
		for _, f2 := range unit {
			for _, b := range f2.Blocks {
				for _, in := range b.Instrs {
					switch x := in.(type) {
					case *ssa.Slice:
						if strv[x.X] {
							mark(strv, x)
						}
					case *ssa.Convert:
						if strv[x.X] && isStringType(x.Type()) {
							mark(strv, x)
							if root[x.X] {
								root[x] = true
							}
						}
						if chv[x.X] {
							mark(chv, x)
						}
					case *ssa.ChangeType:
						if strv[x.X] {
							mark(strv, x)
							if root[x.X] {
								root[x] = true
							}
						}
						if chv[x.X] {
							mark(chv, x)
						}
					case *ssa.Phi:
						all := len(x.Edges) > 0
						for _, e := range x.Edges {
							if !strv[e] && e != ssa.Value(x) {
								all = false
							}
						}
						if all {
							mark(strv, x)
						}
					case *ssa.Index:
						if strv[x.X] {
							mark(chv, x)
							extraction[x] = true
						}
					case *ssa.Lookup:
						if strv[x.X] {
							mark(chv, x)
							extraction[x] = true
						}
					case *ssa.Extract:
						if nx, ok := x.Tuple.(*ssa.Next); ok && nx.IsString && x.Index == 2 {
							if rg, ok := nx.Iter.(*ssa.Range); ok && strv[rg.X] {
								mark(chv, x)
								extraction[x] = true
							}
						}
					case *ssa.Call:
						cal := x.Common().StaticCallee()
						if cal == nil || !inUnit[cal] {
							continue
						}
						for i, a := range x.Common().Args {
							if i < len(cal.Params) {
								if strv[a] {
									mark(strv, cal.Params[i])
								}
								if chv[a] {
									mark(chv, cal.Params[i])
								}
							}
						}
					}
				}
			}
		}
	}
	cc.Extractions = len(extraction)
	cc.ByteWise = true
	for in := range extraction {
		if v, ok := in.(ssa.Value); ok {
			if bt, ok := v.Type().Underlying().(*types.Basic); !ok || bt.Kind() != types.Uint8 {
				cc.ByteWise = false
			}
		}
	}
	isLenOfRoot := func(v ssa.Value) bool {
		c, ok := v.(*ssa.Call)
		return ok && core.CalleeName(c) == "builtin:len" && len(c.Call.Args) == 1 && root[c.Call.Args[0]]
	}
	cmp := func(a int64, op token.Token, b int64) int8 {
		var r bool
		switch op {
		case token.EQL:
			r = a == b
		case token.NEQ:
			r = a != b
		case token.LSS:
			r = a < b
		case token.LEQ:
			r = a <= b
		case token.GTR:
			r = a > b
		case token.GEQ:
			r = a >= b
		default:
			return 0
		}
		if r {
			return 1
		}
		return 2
	}
	flip := func(op token.Token) token.Token {
		switch op {
		case token.LSS:
			return token.GTR
		case token.GTR:
			return token.LSS
		case token.LEQ:
			return token.GEQ
		case token.GEQ:
			return token.LEQ
		}
		return op
	}
	for v := range chv {
		if v.Referrers() == nil {
			continue
		}
		for _, rf := range *v.Referrers() {
			if bo, ok := rf.(*ssa.BinOp); ok && (bo.Op == token.EQL || bo.Op == token.NEQ) {
				if k, ok := core.ConstInt(bo.Y); ok {
					cc.ComparesWith[int(k)] = true
				}
				if k, ok := core.ConstInt(bo.X); ok {
					cc.ComparesWith[int(k)] = true
				}
			}
		}
	}
	// empty: -1 = the argument is empty; otherwise the character every position holds
	oracle := func(ch int) func(v ssa.Value) int8 {
		return func(v ssa.Value) int8 {
			bo, ok := v.(*ssa.BinOp)
			if !ok {
				return 0
			}
			x, y, op := bo.X, bo.Y, bo.Op
			if _, isC := x.(*ssa.Const); isC {
				x, y, op = y, x, flip(op)
			}
			kc, isC := y.(*ssa.Const)
			if !isC || kc.Value == nil {
				return 0
			}
			switch {
			case chv[x] && ch >= 0:
				if k, ok := core.ConstInt(kc); ok {
					return cmp(int64(ch), op, k)
				}
			case root[x] && kc.Value.Kind() == constant.String && constant.StringVal(kc.Value) == "":
				// s == "" / s != ""
				if ch < 0 {
					return cmp(0, op, 0)
				}
				return cmp(1, op, 0)
			case isLenOfRoot(x):
				k, ok := core.ConstInt(kc)
				if !ok {
					return 0
				}
				if ch < 0 {
					return cmp(0, op, k)
				}
				// len >= 1, otherwise unknown
				if k <= 0 {
					return cmp(1, op, k)
				}
				if k == 1 && (op == token.LSS || op == token.GEQ) {
					return cmp(1, op, k)
				}
			}
			return 0
		}
	}
	run := func(ch int) (acceptSeen, acceptUnseen bool) {
		fl := &core.Flow{Fn: fn, Entry: core.StateSet(0).Add(0), Tags: true, EvalBool: oracle(ch),
			Inline: func(cal *ssa.Function) bool { return inUnit[cal] && cal != fn }}
		fl.Transfer = func(in ssa.Instruction, s int) core.StateSet {
			if extraction[in] {
				if ch < 0 {
					return 0 // an empty argument has no character to look at
				}
				return core.StateSet(0).Add(1)
			}
			return core.StateSet(0).Add(s)
		}
		res := fl.Run()
		for _, ret := range core.Returns(fn) {
			rf := res.RetFlag[ret]
			may := rf[0] | rf[1]
			if may.Has(1) {
				acceptSeen = true
			}
			if may.Has(0) {
				acceptUnseen = true
			}
		}
		return
	}
	// run2: the first character looked at is `first`, every later one is ch (a character in the
	// middle of a token: flags such as "at the start of a token" are then false where the code
	// makes them so); the character compared is the one of the latest extraction
	run2 := func(first, ch int) bool {
		fl := &core.Flow{Fn: fn, Entry: core.StateSet(0).Add(0), Tags: true,
			Inline: func(cal *ssa.Function) bool { return inUnit[cal] && cal != fn }}
		fl.Transfer = func(in ssa.Instruction, s int) core.StateSet {
			if extraction[in] {
				if s == 0 {
					return core.StateSet(0).Add(1)
				}
				return core.StateSet(0).Add(2)
			}
			return core.StateSet(0).Add(s)
		}
		fl.BranchOn = func(cond0 ssa.Value, succ int, st int) (int, bool) {
			cond, neg := cond0, false
			for {
				u, ok := cond.(*ssa.UnOp)
				if !ok || u.Op != token.NOT {
					break
				}
				cond, neg = u.X, !neg
			}
			cur := first
			if st == 2 {
				cur = ch
			}
			ev := oracle(cur)(cond)
			if ev == 0 {
				return st, true
			}
			truth := ev == 1
			if neg {
				truth = !truth
			}
			return st, truth == (succ == 0)
		}
		fl.Branch = func(iff *ssa.If, succ int, st int) (int, bool) { return fl.BranchOn(iff.Cond, succ, st) }
		fl.EvalBoolAt = func(v ssa.Value, st int) int8 {
			cur := first
			if st == 2 {
				cur = ch
			}
			return oracle(cur)(v)
		}
		res := fl.Run()
		for _, ret := range core.Returns(fn) {
			rf := res.RetFlag[ret]
			if (rf[0] | rf[1]).Has(2) {
				return true
			}
		}
		return false
	}
	cc.AcceptMid = map[int]bool{}
	for _, v := range []int{'*', '>', 'b'} {
		cc.AcceptMid[v] = run2('a', v)
	}
	_, cc.EmptyAccept = run(-1)
	for _, v := range charReps {
		if cc.ByteWise && v > 255 {
			continue
		}
		seen, _ := run(v)
		cc.Accept[v] = seen
	}
	return cc
}
