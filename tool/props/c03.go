package props

import (
	"fmt"
	"go/token"
	"sort"
	"strings"

	"golang.org/x/tools/go/ssa"

	"resverif/core"
)

func init() { register("C03", c03) }

// stateOp is one access to the service state word.
type stateOp struct {
	Fn    *ssa.Function
	Instr ssa.CallInstruction
	Op    string // load, store, cas
	Old   int64
	New   int64
}

func stateOps(root []*ssa.Function, a *svcAnchors) (ops []stateOp, nonAtomic []core.Access) {
	for _, ac := range core.FieldAccesses(root, func(f core.Field) bool { return f == a.State }) {
		if !strings.HasPrefix(ac.Kind, "addr-call:") {
			nonAtomic = append(nonAtomic, ac)
			continue
		}
		name := strings.TrimPrefix(ac.Kind, "addr-call:")
		ci := ac.Instr.(ssa.CallInstruction)
		args := ci.Common().Args
		op := stateOp{Fn: ac.Fn, Instr: ci, Old: -1, New: -1}
		switch {
		case strings.Contains(name, "atomic.LoadInt32") || strings.HasSuffix(name, "atomic.Int32).Load"):
			op.Op = "load"
		case strings.Contains(name, "atomic.StoreInt32") || strings.HasSuffix(name, "atomic.Int32).Store"):
			op.Op = "store"
			op.New, _ = core.ConstInt(args[len(args)-1])
		case strings.Contains(name, "atomic.CompareAndSwapInt32") || strings.HasSuffix(name, "atomic.Int32).CompareAndSwap"):
			op.Op = "cas"
			op.Old, _ = core.ConstInt(args[len(args)-2])
			op.New, _ = core.ConstInt(args[len(args)-1])
		default:
			nonAtomic = append(nonAtomic, ac)
			continue
		}
		// a transition helper (`switchState(from, to)`): the constants are the arguments at its
		// call sites, and each call site stands for the transition in its caller (for a CAS the
		// helper must hand the swap's result back as its own)
		if lifted := liftStateOp(root, op, args); lifted != nil {
			for _, lo := range lifted {
				ops = append(ops, liftThroughWrappers(root, lo, 0)...)
			}
			continue
		}
		// an operation with constants of its own in a wrapper that does nothing else (tryStart())
		ops = append(ops, liftThroughWrappers(root, op, 0)...)
	}
	return
}

// liftThroughWrappers: an operation with known constants that sits in a wrapper
// method doing nothing else (`func (s *S) beginStop() bool { return
// s.state.transition(started, stopping) }`) stands for the operation in each of
// the wrapper's callers.
func liftThroughWrappers(root []*ssa.Function, op stateOp, depth int) []stateOp {
	fn := op.Fn
	if depth > 3 || fn.Parent() != nil || len(fn.Blocks) != 1 || (fn.Object() != nil && fn.Object().Exported()) {
		return []stateOp{op}
	}
	// the single block: (loads of the receiver's members), the call, return [its value]
	ci, _ := op.Instr.(ssa.CallInstruction)
	if ci == nil {
		return []stateOp{op}
	}
	for _, in := range fn.Blocks[0].Instrs {
		switch x := in.(type) {
		case *ssa.FieldAddr, *ssa.UnOp, *ssa.DebugRef:
		case *ssa.Call:
			if ssa.Instruction(x) != op.Instr {
				return []stateOp{op}
			}
		case *ssa.Return:
			if len(x.Results) > 1 || (len(x.Results) == 1 && x.Results[0] != ci.Value()) {
				return []stateOp{op}
			}
		default:
			return []stateOp{op}
		}
	}
	callers := callsTo(root, fn)
	if len(callers) == 0 {
		return []stateOp{op}
	}
	var out []stateOp
	for _, c := range callers {
		o := op
		o.Fn, o.Instr = c.Parent(), c
		out = append(out, liftThroughWrappers(root, o, depth+1)...)
	}
	return out
}

func liftStateOp(root []*ssa.Function, op stateOp, args []ssa.Value) []stateOp {
	if op.Op != "store" && op.Op != "cas" {
		return nil
	}
	fn := op.Fn
	prmIdx := func(v ssa.Value) int {
		for i, q := range fn.Params {
			if ssa.Value(q) == v {
				return i
			}
		}
		return -1
	}
	newIdx, oldIdx := prmIdx(args[len(args)-1]), -1
	if op.Op == "cas" {
		oldIdx = prmIdx(args[len(args)-2])
	}
	if newIdx < 0 && oldIdx < 0 {
		return nil
	}
	if fn.Parent() != nil {
		return nil
	}
	if op.Op == "cas" {
		ci, _ := op.Instr.(*ssa.Call)
		n := 0
		for _, ret := range core.Returns(fn) {
			n++
			if ci == nil || len(ret.Results) != 1 || ret.Results[0] != ssa.Value(ci) {
				return nil
			}
		}
		if n != 1 {
			return nil
		}
	}
	var out []stateOp
	for _, c := range callsTo(root, fn) {
		o := stateOp{Fn: c.Parent(), Instr: c, Op: op.Op, Old: op.Old, New: op.New}
		ok := true
		if newIdx >= 0 {
			k, isC := core.ConstInt(c.Common().Args[newIdx])
			o.New, ok = k, ok && isC
		}
		if oldIdx >= 0 {
			k, isC := core.ConstInt(c.Common().Args[oldIdx])
			o.Old, ok = k, ok && isC
		}
		if !ok {
			return nil
		}
		out = append(out, o)
	}
	return out
}

// startedEdge: does the edge establish state == started (given the constant)?
func startedEdge(e edgeCond, started int64) bool {
	cnd, succ := e.Norm()
	return startedValue(cnd, succ == 0, started, 0)
}

// startedValue: cond having truth value `truth` establishes state == started.
// cond is the comparison of an atomic load with the constant, or the result of
// a bool helper of the package that returns true only where that holds
// (`isStarted()`, `startedOrLog(msg)`).
func startedValue(cond ssa.Value, truth bool, started int64, depth int) bool {
	for {
		u, ok := cond.(*ssa.UnOp)
		if !ok || u.Op != token.NOT {
			break
		}
		cond, truth = u.X, !truth
	}
	ci := core.Cond(cond)
	if ci.Kind == "constcmp" && ci.Const != nil {
		c, ok := core.Strip(ci.X).(*ssa.Call)
		if ok && (strings.Contains(core.CalleeName(c), "atomic.LoadInt32") || strings.HasSuffix(core.CalleeName(c), "Int32).Load")) && ci.Const.ExactString() == fmt.Sprint(started) {
			t := truth
			if ci.Negate {
				t = !t
			}
			return (ci.Op == token.EQL && t) || (ci.Op == token.NEQ && !t)
		}
	}
	call, ok := cond.(*ssa.Call)
	if !ok || depth > 3 {
		return false
	}
	cal := call.Common().StaticCallee()
	if cal == nil || len(cal.Blocks) == 0 || cal.Signature.Results().Len() != 1 {
		return false
	}
	n := 0
	for _, ret := range core.Returns(cal) {
		for _, src := range phiSources(ret.Results[0]) {
			if isConstBool(src.V, !truth) {
				continue // a return incompatible with the observed result
			}
			n++
			if !isConstBool(src.V, truth) && startedValue(src.V, truth, started, depth+1) {
				continue // the helper returns the comparison itself
			}
			okEdge := false
			for _, de := range srcEdges(ret, src) {
				dc, ds := de.Norm()
				if startedValue(dc, ds == 0, started, depth+1) {
					okEdge = true
				}
			}
			if !okEdge {
				return false
			}
		}
	}
	return n > 0
}

func c03(r *core.Run) {
	p := r.P
	r.Explanation = "Finite-state extraction of every access to the service state word (all atomic; the transition relation must equal stopped->starting (CAS) -> started (Store) -> stopping (CAS) -> stopped (Store)), dominance-order obligations in serve/Shutdown/closeFn (initialise before publish; close protocol nil-under-lock -> Broadcast -> Conn.Close -> close(channel); wait for workers before declaring stopped), worker accounting (Add(n) vs n go statements, deferred Done, exit on observing the closed queue), started-checks dominating every publishing entry point and the enqueue, 'a closed work queue is never re-opened' (typestate within the critical section) and 'the connection field is not cleared while readers may run' (who-may-write). Decides the structural causes of hangs, leaked workers, panics and double close for every interleaving; does not measure time."
	r.NotDecided = []string{"bounded time as such (scheduler, third-party Conn.Close)", "what a user callback blocked forever does to Shutdown"}
	r.Assumptions = []string{"sync/atomic, sync.WaitGroup, sync.Cond semantics", "Shutdown is not called from inside a callback (stated in the property)"}

	r.Rule("S1", "state machine: every access to the state word is atomic; transitions are exactly CAS stopped->starting (each Serve entry), Store started (serve), CAS started->stopping and Store stopped (Shutdown); loads are compared with started only", 8)
	r.Rule("S2", "order: in Shutdown CAS-success dominates closeFn dominates WaitGroup.Wait dominates Store(stopped), with Wait called synchronously; in serve the initialisation of connection, queues, condition, WaitGroup.Add and the worker go statements dominate Store(started), which dominates subscribe", 8)
	r.Rule("S3", "close protocol in closeFn: store nil to the work queue with the lock Held -> Broadcast (not Signal) -> Close on the connection -> close of the in-channel, in dominance order; closeFn is called only from Shutdown; Conn.Close on the service connection only from closeFn", 5)
	r.Rule("S4", "workers counted: WaitGroup.Add operand and the go-loop bound are the same configuration field; the worker defers Done in its entry block; after every (re-)acquire or wait the worker tests the queue for nil before waiting or popping, and the nil edge reaches return without waiting or draining", 4)
	r.Rule("S5", "started-check: enqueue, and in every exported Service method every call that may reach Conn.Publish (not through enqueue), is dominated by the state==started edge", 6)
	r.Rule("O1", "Serve returns after Shutdown (shared with C02.O1): the listener loop receives on the channel value created by this run's serve - the same value stored as the in-channel and closed by the close protocol - by a plain call from serve; re-reading the field (which Shutdown clears) could range over a nil channel for ever", 4)
	r.Rule("N0", "closed queue stays closed: every store of a possibly non-nil value to the work queue outside serve's initialisation happens, within its critical section, after the queue was observed non-nil", 3)
	r.Rule("N1", "connection fields stable while serving: the connection and in-channel fields are written only by serve's initialisation (a write elsewhere races with publishing entry points and with Serve's subscribe, which passed the started-check)", 2)

	r.Rule("W1", "no callback outlives Shutdown (shared with C01.F1): every callback-kind dynamic call (handlers, With*/query callbacks, queue elements) runs on a worker goroutine - the ones Shutdown's Wait awaits - or synchronously inside such a callback; a timer or foreign goroutine never calls a user callback directly (it would start after Shutdown returned, or while Shutdown drains)", 6)

	a, e := queueEngine(r, "S1")
	if e == nil {
		return
	}
	root := p.FuncsOfPkg("")
	c01Funnel(r, "W1", a, root)

	// ---- S1 --------------------------------------------------------------
	ops, nonAtomic := stateOps(root, a)
	for _, ac := range nonAtomic {
		r.Bad("S1", core.FuncName(ac.Fn), "non-atomic-access("+a.State.String()+")", p.InstrPos(ac.Instr), "state word accessed non-atomically: "+ac.Kind)
	}
	// derive constants by role
	var started, stopped, starting, stopping int64 = -1, -1, -1, -1
	started = startedConst(p, a, ops)
	var serveCallers []*ssa.Function
	for _, c := range callsTo(root, a.Serve) {
		serveCallers = append(serveCallers, c.Parent())
	}
	for _, op := range ops {
		if op.Op == "cas" {
			for _, sc := range serveCallers {
				if op.Fn == sc {
					stopped, starting = op.Old, op.New
				}
			}
			if op.Old == started && started >= 0 {
				stopping = op.New
			}
		}
	}
	if started >= 0 && stopped >= 0 && stopping < 0 {
		// no CAS out of the started state: is the stop transition made with a plain store?
		for _, op := range ops {
			if op.Op == "store" && op.New != started && op.New != stopped && op.New != starting && op.Fn != a.Serve {
				r.Bad("S1", core.FuncName(op.Fn), "stop-transition-is-a-compare-and-swap", p.InstrPos(op.Instr), "the stop transition (started -> stopping) is made with a plain atomic store after a separate load instead of one compare-and-swap: two concurrent Shutdown calls can both pass the check, both run the close protocol (connection closed twice, close of a closed channel panics) and both report success")
			}
		}
	}
	if started < 0 || stopped < 0 || stopping < 0 {
		r.Unres("S1", "state-constants", fmt.Sprintf("started=%d stopped=%d starting=%d stopping=%d", started, stopped, starting, stopping))
		return
	}
	r.Extra["state_constants"] = map[string]int64{"stopped": stopped, "starting": starting, "started": started, "stopping": stopping}
	distinct := map[int64]bool{stopped: true, starting: true, started: true, stopping: true}
	r.Check(len(distinct) == 4, "S1", "constants", "four-distinct-states", "-", "stopped/starting/started/stopping are four distinct values", "state constants collide")
	var shutdown *ssa.Function
	for _, op := range ops {
		fn := core.FuncName(op.Fn)
		switch op.Op {
		case "cas":
			switch {
			case op.Old == stopped && op.New == starting:
				isEntry := false
				for _, sc := range serveCallers {
					if sc == op.Fn {
						isEntry = true
					}
				}
				r.Check(isEntry, "S1", fn, "CAS(stopped->starting)", p.InstrPos(op.Instr), "start transition taken by a Serve entry point", "start transition outside a Serve entry point")
			case op.Old == started && op.New == stopping:
				if shutdown != nil && shutdown != op.Fn {
					r.Bad("S1", fn, "CAS(started->stopping)", p.InstrPos(op.Instr), "second function performs the stop transition")
				} else {
					shutdown = op.Fn
					r.OK("S1", fn, "CAS(started->stopping)", p.InstrPos(op.Instr), "stop transition by compare-and-swap (double Shutdown refused)")
				}
			default:
				r.Bad("S1", fn, fmt.Sprintf("CAS(%d->%d)", op.Old, op.New), p.InstrPos(op.Instr), "transition outside the state machine")
			}
		case "store":
			switch {
			case op.New == started && op.Fn == a.Serve:
				r.OK("S1", fn, "Store(started)", p.InstrPos(op.Instr), "starting->started by the goroutine that won the start CAS")
			case op.New == stopped:
				r.OK("S1", fn, "Store(stopped)", p.InstrPos(op.Instr), "stopping->stopped (ownership checked by S2)")
			default:
				r.Bad("S1", fn, fmt.Sprintf("Store(%d)", op.New), p.InstrPos(op.Instr), "plain store outside the state machine (a Store instead of a CAS lets two goroutines start or stop at once)")
			}
		case "load":
			// every use of the loaded value is a comparison with started
			v := op.Instr.Value()
			good := v != nil
			if v != nil && v.Referrers() != nil {
				for _, rf := range *v.Referrers() {
					bo, ok := rf.(*ssa.BinOp)
					if !ok {
						if _, dbg := rf.(*ssa.DebugRef); !dbg {
							good = false
						}
						continue
					}
					c, isC := core.ConstInt(bo.Y)
					if !isC {
						c, isC = core.ConstInt(bo.X)
					}
					if !isC {
						// `is(st)`: compared with a parameter to which every caller passes the constant
						for _, side := range []ssa.Value{bo.X, bo.Y} {
							prm, isPrm := side.(*ssa.Parameter)
							if !isPrm {
								continue
							}
							pi, all, n := -1, true, 0
							for i, q := range prm.Parent().Params {
								if q == prm {
									pi = i
								}
							}
							for _, cs := range callsTo(root, prm.Parent()) {
								n++
								if k, ok := core.ConstInt(cs.Common().Args[pi]); !ok || k != started {
									all = false
								}
							}
							if all && n > 0 {
								c, isC = started, true
							}
						}
					}
					if !isC || c != started || (bo.Op != token.EQL && bo.Op != token.NEQ) {
						good = false
					}
				}
			}
			r.Check(good, "S1", fn, "Load-compared-with-started", p.InstrPos(op.Instr), "load used only in ==/!= started", "state load used other than in a comparison with started")
		}
	}
	for _, sc := range serveCallers {
		has := false
		for _, op := range ops {
			if op.Fn == sc && op.Op == "cas" && op.Old == stopped && op.New == starting {
				// the call to serve must be dominated by the CAS success edge
				for _, c := range callsTo([]*ssa.Function{sc}, a.Serve) {
					for _, ed := range dominatingEdges(c) {
						if ed.If.Cond == op.Instr.Value() && ed.Succ == 0 {
							has = true
						}
						if u, ok := ed.If.Cond.(*ssa.UnOp); ok && u.Op == token.NOT && u.X == op.Instr.Value() && ed.Succ == 1 {
							has = true
						}
					}
				}
			}
		}
		r.Check(has, "S1", core.FuncName(sc), "serve-behind-CAS-success", p.Pos(sc.Pos()), "serve is only reached on the success edge of CAS(stopped->starting)", "serve can be entered without winning the start CAS: two concurrent Serve calls would both initialise")
	}
	if shutdown == nil {
		r.Bad("S1", "anchor", "shutdown-function", "-", "no function performs CAS(started->stopping)")
		return
	}

	// ---- S2 --------------------------------------------------------------
	{
		fn := shutdown
		fname := core.FuncName(fn)
		var cas, closeCall, wait, storeStopped ssa.Instruction
		for _, op := range ops {
			if op.Fn == fn && op.Op == "cas" {
				cas = op.Instr
			}
			if op.Fn == fn && op.Op == "store" && op.New == stopped {
				storeStopped = op.Instr
			}
		}
		// when the close protocol is written out in Shutdown itself, its first step (closing flag)
		// stands for "closeFn starts" and its last step (close of the in-channel) for "closeFn is done"
		var closeEnd ssa.Instruction
		if a.Close == fn {
			for _, ac := range core.FieldAccesses(p.Helpers(fn), func(f core.Field) bool { return f == a.WorkQueue }) {
				if ac.Kind == "store" && storeShape(ac.Instr.(*ssa.Store).Val, a) == "nil" {
					// (the step may sit in a private helper: it is represented by the helper's call)
					if l := p.Lift(ac.Instr, fn); len(l) == 1 {
						closeCall = l[0]
					}
				}
			}
			for _, c := range core.Calls(fn) {
				if core.CalleeName(c) == "builtin:close" {
					if f, ok := core.LoadedField(c.Common().Args[0]); ok && f == a.InCh {
						closeEnd = c
					}
				}
			}
		}
		for _, c := range core.Calls(fn) {
			if c.Common().StaticCallee() == a.Close && a.Close != fn {
				closeCall = c
				closeEnd = c
			}
		}
		if ws := workerWaitSites(p, fn, a); len(ws) > 0 {
			wait = ws[len(ws)-1]
		}
		onSuccess := false
		if closeCall != nil && cas != nil {
			for _, ed := range dominatingEdges(closeCall) {
				cv := cas.(ssa.Value)
				if (ed.If.Cond == cv && ed.Succ == 0) || (isNotOf(ed.If.Cond, cv) && ed.Succ == 1) {
					onSuccess = true
				}
			}
		}
		r.Check(onSuccess, "S2", fname, "closeFn-on-CAS-success", posOf(p, closeCall), "closeFn only on the success edge of the stop CAS (connection closed once)", "closeFn not guarded by the stop CAS's success edge")
		r.Check(closeCall != nil && closeEnd != nil && wait != nil && core.Dominates(closeEnd, wait), "S2", fname, "closeFn-dom-wg.Wait", posOf(p, wait), "workers are awaited (synchronously, unconditionally) after the close protocol", "Shutdown does not synchronously wait for the workers after closing (no plain WaitGroup.Wait on the worker group dominated by closeFn)")
		r.Check(wait != nil && storeStopped != nil && core.Dominates(wait, storeStopped), "S2", fname, "wg.Wait-dom-Store(stopped)", posOf(p, storeStopped), "the service is declared stopped only after every worker has exited", "Store(stopped) is not dominated by a synchronous WaitGroup.Wait: a restart could overlap workers of the previous run")
		// per-run fields cleared after the wait
		unit := []*ssa.Function{fn}
		for _, h := range p.Helpers(fn) {
			if h != fn && h != a.Close && !p.Within(h, a.Close) {
				unit = append(unit, h)
			}
		}
		for _, ac := range core.FieldAccesses(unit, func(f core.Field) bool { return f == a.NC || f == a.InCh || f == a.RWork || f == a.WorkQueue }) {
			if ac.Kind == "store" && ac.Instr != closeCall {
				after := wait != nil
				for _, site := range p.Lift(ac.Instr, fn) {
					if wait == nil || !core.Dominates(wait, site) {
						after = false
					}
				}
				r.Check(after, "S2", fname, "clear("+a.label(ac.F)+")-after-wg.Wait", p.InstrPos(ac.Instr), "per-run field cleared only after the workers are gone", "per-run field cleared while workers may still run")
			}
		}
		// every return on the success path is dominated by Store(stopped)
		for _, ret := range core.Returns(fn) {
			succ := false
			for _, ed := range dominatingEdges(ret) {
				cv, _ := cas.(ssa.Value)
				if cv != nil && ((ed.If.Cond == cv && ed.Succ == 0) || (isNotOf(ed.If.Cond, cv) && ed.Succ == 1)) {
					succ = true
				}
			}
			if succ {
				r.Check(storeStopped != nil && core.Dominates(storeStopped, ret), "S2", fname, "return-after-Store(stopped)", p.InstrPos(ret), "successful Shutdown returns only after the state is stopped", "Shutdown can return on the success path without reaching stopped (restart impossible)")
			}
		}
	}
	{
		fn := a.Serve
		fname := core.FuncName(fn)
		var storeStarted, subscribe, firstGo ssa.Instruction
		for _, op := range ops {
			if op.Fn == fn && op.Op == "store" {
				storeStarted = op.Instr
			}
		}
		subFn := subscribeFn(p)
		for _, c := range helperCalls(p, fn) {
			if cal := c.Common().StaticCallee(); cal != nil && (cal == subFn || (subFn == nil && cal.Name() == "subscribe")) {
				if l := p.Lift(c, fn); len(l) > 0 {
					subscribe = l[0]
				}
			}
		}
		isWait := map[ssa.Instruction]bool{}
		for _, ws := range workerWaitSites(p, fn, a) {
			isWait[ws] = true
		}
		startSites := workerStartSites(p, fn, a)
		if len(startSites) > 0 {
			firstGo = startSites[0]
		}
		isStart := map[ssa.Instruction]bool{}
		for _, ss := range startSites {
			isStart[ss] = true
		}
		need := []core.Field{a.NC, a.InCh, a.Cond, a.RWork, a.WorkQueue}
		for _, f := range need {
			okInit := false
			for _, ac := range core.FieldAccesses(p.Helpers(fn), func(g core.Field) bool { return g == f }) {
				if ac.Kind != "store" || storeStarted == nil || !beforeWorkers(p, a, ac.Instr, firstGo) {
					continue
				}
				if ac.Fn != fn && !unconditionalIn(ac.Instr) {
					continue // a conditional store in an initialisation helper
				}
				dom := true
				for _, site := range p.Lift(ac.Instr, fn) {
					if !core.Dominates(site, storeStarted) {
						dom = false
					}
				}
				if dom {
					okInit = true
				}
			}
			r.Check(okInit, "S2", fname, "init("+f.String()+")-dom-go-workers-and-Store(started)", p.Pos(fn.Pos()), "initialised before any worker starts and before the service is published as started", "field not (re)initialised before workers start / before Store(started): a restart would use the previous run's value")
		}
		// the condition variable's locker is the queue mutex
		condOK := false
		for _, f2 := range p.Helpers(fn) {
			for _, b := range f2.Blocks {
				for _, in := range b.Instrs {
					if st, ok := in.(*ssa.Store); ok {
						if f, ok := core.FieldOf(st.Addr); ok && f.Struct == "sync.Cond" && f.Name == "L" {
							if mf, ok := core.FieldOf(core.Strip(st.Val)); ok && mf == a.Mu {
								condOK = true
							}
						}
					}
				}
			}
		}
		r.Check(condOK, "S2", fname, "cond.L==&mu", p.Pos(fn.Pos()), "the worker condition is bound to the queue mutex", "the worker condition's Locker is not the queue mutex")
		r.Check(storeStarted != nil && firstGo != nil && workersDominate(startSites, storeStarted), "S2", fname, "go-workers-dom-Store(started)", posOf(p, storeStarted), "all workers are started before the service is published as started", "Store(started) is not after the worker start loop")
		r.Check(storeStarted != nil && subscribe != nil && core.Dominates(storeStarted, subscribe), "S2", fname, "Store(started)-dom-subscribe", posOf(p, subscribe), "requests can only arrive after the service accepts submissions", "subscriptions are made before the service is started: early requests would be refused by enqueue and never answered")
		// serve waits for workers before returning on every path after they were started
		// typestate: 1 = workers were started and not yet awaited
		var waitFlow *core.FlowResult
		if firstGo != nil {
			fl := &core.Flow{Fn: fn, Entry: core.StateSet(0).Add(0)}
			fl.Transfer = func(in ssa.Instruction, st int) core.StateSet {
				if c, ok := in.(ssa.CallInstruction); ok {
					if isStart[in] {
						return core.StateSet(0).Add(1)
					}
					if isWait[in] {
						return core.StateSet(0).Add(0)
					}
					_ = c
				}
				return core.StateSet(0).Add(st)
			}
			waitFlow = fl.Run()
		}
		for _, ret := range core.Returns(fn) {
			if firstGo != nil && core.Reaches(firstGo, ret) {
				w := waitFlow != nil && !waitFlow.Before[ret].Has(1)
				r.Check(w, "S2", fname, "return-after-wg.Wait", p.InstrPos(ret), "Serve returns only after all workers exited", "Serve can return while workers are still running")
			}
		}
	}

	// ---- S3 --------------------------------------------------------------
	{
		fn := a.Close
		fname := core.FuncName(fn)
		var nilStore, bcast, connClose, chClose ssa.Instruction
		signalOnly := false
		scope := p.Helpers(fn) // closeFn and the private helpers it calls
		var scopeCalls []ssa.CallInstruction
		for _, f2 := range scope {
			scopeCalls = append(scopeCalls, core.Calls(f2)...)
		}
		for _, ac := range core.FieldAccesses(scope, func(f core.Field) bool { return f == a.WorkQueue }) {
			if ac.Kind == "store" && storeShape(ac.Instr.(*ssa.Store).Val, a) == "nil" {
				nilStore = ac.Instr
			}
		}
		for _, c := range scopeCalls {
			switch e.lockOp(c) {
			case "broadcast":
				bcast = c
			case "signal":
				signalOnly = true
			}
			cc := c.Common()
			if cc.IsInvoke() && cc.Method.Name() == "Close" {
				if f, ok := core.LoadedField(cc.Value); ok && f == a.NC {
					connClose = c
				}
			}
			if core.CalleeName(c) == "builtin:close" {
				if f, ok := core.LoadedField(cc.Args[0]); ok && f == a.InCh {
					chClose = c
				}
			}
		}
		// the two closes belong to every run's shutdown: wrapped in a sync.Once of the Service they
		// happen for the first run only - a restarted service's Shutdown leaves its connection open
		// and its listener (and Serve) blocked for ever
		for _, f2 := range scope {
			for _, cl := range withAnon(f2) {
				if cl.Parent() == nil {
					continue
				}
				for _, c := range core.Calls(cl) {
					cc := c.Common()
					isConnClose := false
					if cc.IsInvoke() && cc.Method.Name() == "Close" {
						if f, ok := core.LoadedField(cc.Value); ok && f == a.NC {
							isConnClose = true
						}
					}
					isChClose := false
					if core.CalleeName(c) == "builtin:close" {
						if f, ok := core.LoadedField(cc.Args[0]); ok && f == a.InCh {
							isChClose = true
						}
					}
					if !isConnClose && !isChClose {
						continue
					}
					once := false
					for _, oc := range core.Calls(cl.Parent()) {
						if cal := oc.Common().StaticCallee(); cal != nil && cal.String() == "(*sync.Once).Do" {
							for _, av := range oc.Common().Args {
								if mc, ok := av.(*ssa.MakeClosure); ok && mc.Fn == ssa.Value(cl) {
									once = true
								}
							}
						}
					}
					r.Check(!once, "S3", fname, "close-steps-run-on-every-shutdown", p.InstrPos(c), "the closing steps are not behind a once-guard", "the connection / in-channel is closed inside a sync.Once of the service: only the first run's shutdown closes them - after a restart Shutdown returns with the connection still open and the listener loop (and the blocked Serve call) never ends")
				}
			}
		}
		r.Check(nilStore != nil && e.stateAt(nilStore).Only(lkHeld), "S3", fname, "workqueue=nil-under-lock", posOf(p, nilStore), "closing flag set with the queue lock Held", "closing flag (nil work queue) not set, or set without the lock")
		r.Check(bcast != nil && nilStore != nil && p.DominatesIn(fn, nilStore, bcast), "S3", fname, "Broadcast-after-nil", posOf(p, bcast), "all workers are woken after the closing flag is set", fmt.Sprintf("no Broadcast after setting the closing flag (signal-only=%v): waiting workers never observe the close", signalOnly))
		r.Check(connClose != nil && bcast != nil && p.DominatesIn(fn, bcast, connClose), "S3", fname, "Conn.Close-after-Broadcast", posOf(p, connClose), "connection closed after workers were told to stop", "connection not closed in closeFn after the broadcast")
		r.Check(chClose != nil && connClose != nil && p.DominatesIn(fn, connClose, chClose), "S3", fname, "close(inCh)-after-Conn.Close", posOf(p, chClose), "in-channel closed after the connection (no send on a closed channel by the NATS client), ending the listener loop", "in-channel not closed after Conn.Close: the listener never ends or the client sends on a closed channel")
		for _, c := range callsTo(root, fn) {
			if fn == shutdown {
				break // the protocol is part of Shutdown, whose single entry is guarded by the stop CAS (S1, S2)
			}
			r.Check(c.Parent() == shutdown && !core.IsGo(c), "S3", core.FuncName(c.Parent()), "calls-closeFn", p.InstrPos(c), "closeFn called from Shutdown only", "closeFn called from outside Shutdown: the connection could be closed twice")
		}
		for _, c := range invokes(root, "Conn", "Close") {
			if f, ok := core.LoadedField(c.Common().Value); ok && f == a.NC {
				r.Check(p.Within(c.Parent(), fn) && c.Parent().Parent() == nil, "S3", core.FuncName(c.Parent()), "Conn.Close(service-connection)", p.InstrPos(c), "only closeFn closes the service connection", "the service connection is closed outside closeFn")
			}
		}
	}

	// ---- O1 (shared with C02) ------------------------------------------------
	c02Listener(r, "O1", a, root)

	// ---- S4 --------------------------------------------------------------
	c03Workers(r, a, e)

	// ---- S5 --------------------------------------------------------------
	mayPub := map[*ssa.Function]bool{}
	for _, c := range invokes(root, "Conn", "Publish") {
		mayPub[c.Parent()] = true
	}
	for changed := true; changed; {
		changed = false
		for _, fn := range root {
			if mayPub[fn] || fn == a.Enqueue {
				continue
			}
			for _, c := range core.Calls(fn) {
				if cal := c.Common().StaticCallee(); cal != nil && mayPub[cal] && cal != a.Enqueue {
					mayPub[fn] = true
					changed = true
				}
			}
		}
	}
	// the listener goroutine is the one goroutine Shutdown does not wait for: the message handler it
	// runs must not use the connection itself (only through enqueue, which refuses after the stop)
	for _, fn := range root {
		if fn.Parent() != nil || fn.Signature.Recv() == nil || core.TypeName(fn.Signature.Recv().Type()) != a.S {
			continue
		}
		hasMsg, callsEnq := false, false
		for _, prm := range fn.Params {
			if strings.HasSuffix(core.TypeName(prm.Type()), "nats.go.Msg") {
				hasMsg = true
			}
		}
		for _, c := range core.Calls(fn) {
			if c.Common().StaticCallee() == a.Enqueue {
				callsEnq = true
			}
		}
		if !hasMsg || !callsEnq {
			continue
		}
		via := ""
		for _, c := range core.Calls(fn) {
			cal := c.Common().StaticCallee()
			if cal != nil && mayPub[cal] && cal != a.Enqueue {
				via = core.FuncName(cal) + " at " + p.InstrPos(c)
			}
			if c.Common().IsInvoke() && c.Common().Method.Name() == "Publish" {
				via = "Conn.Publish at " + p.InstrPos(c)
			}
		}
		r.Check(via == "", "S5", core.FuncName(fn), "message-handler-publishes-only-through-enqueue", p.Pos(fn.Pos()), "the listener goroutine never touches the connection directly", "the message handler, which runs on the listener goroutine that Shutdown does not wait for, can publish directly ("+via+"): a request still buffered when Shutdown clears the connection dereferences a nil connection (panic in the goroutine blocked in Serve)")
	}
	c03EnqueueStartedCheck(r, "S5", a, e, started)
	for _, fn := range methodsOf(p, "", a.S) {
		if fn.Object() == nil || !fn.Object().Exported() {
			continue
		}
		for _, c := range core.Calls(fn) {
			cal := c.Common().StaticCallee()
			if cal == nil || !mayPub[cal] || cal == a.Enqueue {
				continue
			}
			if cal.Object() != nil && cal.Object().Exported() && cal.Signature.Recv() != nil && core.TypeName(cal.Signature.Recv().Type()) == a.S {
				continue // delegates to another exported method, which is judged itself
			}
			if fn == a.Serve || isServeEntry(fn, serveCallers) {
				continue
			}
			ok := false
			for _, ed := range dominatingEdges(c) {
				if startedEdge(ed, started) {
					ok = true
				}
			}
			if !ok && p.IsPrivateHelper(cal) {
				// the entry point delegates to a private helper that performs the started-check itself
				ok = helperChecksStarted(p, cal, mayPub, func(ed edgeCond) bool { return startedEdge(ed, started) }, a.Enqueue, 0)
			}
			r.Check(ok, "S5", core.FuncName(fn), "started-check-dom-call:"+core.FuncName(cal), p.InstrPos(c), "publishing call is dominated by the state==started edge", "publishing entry point uses the connection without a dominating started-check: after Shutdown it dereferences a cleared connection (panic)")
		}
	}

	// serve itself: once it has published the started state a Shutdown is accepted, so what serve
	// publishes afterwards (the initial system.reset) must go through a state-checked entry point
	// like everybody else's publishes - an unchecked publisher called here uses a connection that a
	// concurrent Shutdown may already have closed and cleared
	{
		nServe := 0
		for _, h := range p.Helpers(a.Serve) {
			if !p.Within(h, a.Serve) {
				continue // shared with other callers: judged at the call that leaves serve's own unit
			}
			for _, c := range core.Calls(h) {
				cal := c.Common().StaticCallee()
				if cal == nil || !mayPub[cal] || cal == a.Enqueue || p.Within(cal, a.Serve) {
					continue
				}
				if cal.Object() != nil && cal.Object().Exported() && cal.Signature.Recv() != nil && core.TypeName(cal.Signature.Recv().Type()) == a.S {
					nServe++
					continue // an exported method, judged itself above
				}
				nServe++
				ok := false
				for _, ed := range ctxEdges(p, c, a.Serve, 0) {
					if startedEdge(ed, started) {
						ok = true
					}
				}
				if !ok && p.IsPrivateHelper(cal) {
					ok = helperChecksStarted(p, cal, mayPub, func(ed edgeCond) bool { return startedEdge(ed, started) }, a.Enqueue, 0)
				}
				r.Check(ok, "S5", core.FuncName(h), "serve-publishes-through-started-check:"+core.FuncName(cal), p.InstrPos(c), "publishing call is dominated by the state==started edge", "serve publishes through "+core.FuncName(cal)+", which does not check the state: a Shutdown accepted after serve declared the service started has closed and cleared the connection by then (nil dereference in the goroutine blocked in Serve, or a publish on a closed connection)")
			}
		}
		r.Analysed["serve_publishing_calls"] = nServe
	}

	// ---- N0 --------------------------------------------------------------
	for _, fn := range root {
		if fn == a.Serve || p.IsPrivateHelper(fn) {
			continue // helpers are analysed in the context of their callers
		}
		var stores []*ssa.Store
		for _, ac := range core.FieldAccesses(p.Helpers(fn), func(f core.Field) bool { return f == a.WorkQueue }) {
			if ac.Kind == "store" && storeShape(ac.Instr.(*ssa.Store).Val, a) != "nil" && !p.Within(ac.Fn, a.Serve) {
				stores = append(stores, ac.Instr.(*ssa.Store))
			}
		}
		if len(stores) == 0 {
			continue
		}
		fl := &core.Flow{Fn: fn, Entry: core.StateSet(0).Add(0), Inline: p.IsPrivateHelper, Tags: true}
		fl.Transfer = func(in ssa.Instruction, s int) core.StateSet {
			if e.isRelease(in) {
				return core.StateSet(0).Add(0)
			}
			if c, ok := in.(*ssa.Call); ok && e.lockOp(c) == "lock" {
				return core.StateSet(0).Add(0)
			}
			return core.StateSet(0).Add(s)
		}
		fl.Branch = func(iff *ssa.If, succ int, s int) (int, bool) {
			ci := core.Cond(iff.Cond)
			if !ci.HasFld || ci.Field != a.WorkQueue {
				return s, true
			}
			truth := succ == 0
			if ci.Negate {
				truth = !truth
			}
			switch ci.Kind {
			case "nilcmp":
				if (ci.Op == token.NEQ && truth) || (ci.Op == token.EQL && !truth) {
					return 1, true
				}
			case "lencmp":
				cs := ci.Const.ExactString()
				if cs == "0" && ((ci.Op == token.EQL && !truth) || (ci.Op == token.NEQ && truth) || (ci.Op == token.GTR && truth)) {
					return 1, true
				}
				if cs != "0" && ci.Op == token.EQL && truth {
					return 1, true
				}
			}
			return s, true
		}
		res := fl.Run()
		for _, st := range stores {
			s := res.Before[st]
			r.Check(s.Only(1), "N0", core.FuncName(st.Parent()), "store("+a.WorkQueue.String()+")="+storeShape(st.Val, a)+":queue-known-open", p.InstrPos(st),
				"the queue was observed non-nil earlier in this critical section", "a possibly closed (nil) work queue is overwritten with a non-nil value: workers that have not yet observed the close keep waiting and Shutdown/Serve hang in WaitGroup.Wait")
		}
	}

	// ---- N1 --------------------------------------------------------------
	firstGo := firstWorkerStart(p, a)
	for _, ac := range core.FieldAccesses(root, func(f core.Field) bool { return f == a.NC || f == a.InCh }) {
		if !ac.Write || ac.Kind == "close" {
			continue
		}
		if beforeWorkers(p, a, ac.Instr, firstGo) {
			r.OK("N1", core.FuncName(ac.Fn), "store("+a.label(ac.F)+"):init", p.InstrPos(ac.Instr), "written during initialisation, before any other goroutine of this run exists")
			continue
		}
		r.Bad("N1", ownerName(p, ac.Fn), "store("+a.label(ac.F)+")", p.InstrPos(ac.Instr), "a per-run connection field is written outside serve's initialisation with no lock: publishing entry points (Reset, TokenEvent, event, reply) and Serve's own subscribe, which passed the started-check, read it concurrently -> nil-pointer panic / data race")
	}
}

func isNotOf(c ssa.Value, v ssa.Value) bool {
	u, ok := c.(*ssa.UnOp)
	return ok && u.Op == token.NOT && u.X == v
}

func posOf(p *core.Prog, in ssa.Instruction) string {
	if in == nil {
		return "-"
	}
	return p.InstrPos(in)
}

func isServeEntry(fn *ssa.Function, entries []*ssa.Function) bool {
	for _, e := range entries {
		if e == fn {
			return true
		}
	}
	return false
}

// workersDominate: the Store(started) is not reachable without having passed
// the loop head of the worker start loop, and no go-worker is reachable after it.
func workersDominate(startSites []ssa.Instruction, storeStarted ssa.Instruction) bool {
	for _, c := range startSites {
		if core.Reaches(storeStarted, c) {
			return false
		}
		if !core.Reaches(c, storeStarted) {
			return false
		}
	}
	return len(startSites) > 0
}

// c03WorkersBeforeStarted (C02.H2 = C03.S2's obligation): the store of the
// started state in serve comes after every worker start and no worker is started
// after it.
func c03WorkersBeforeStarted(r *core.Run, rule string, a *svcAnchors, root []*ssa.Function) {
	p := r.P
	ops, _ := stateOps(root, a)
	var storeStarted ssa.Instruction
	for _, op := range ops {
		if op.Fn == a.Serve && op.Op == "store" {
			storeStarted = op.Instr
		}
	}
	ss := workerStartSites(p, a.Serve, a)
	r.Check(storeStarted != nil && workersDominate(ss, storeStarted), rule, core.FuncName(a.Serve), "go-workers-dom-Store(started)", posOf(p, storeStarted), "all workers are started before the service accepts callbacks", "the service is published as started (enqueue accepts callbacks) before its workers are started: callbacks accepted in between wait for a worker that does not exist yet")
}

// beforeWorkers: in runs only during serve's initialisation - it lies in serve
// or in a function private to serve's unit, and every call path from serve to
// it goes through a call site that dominates the first worker start. Nothing
// else of this run exists yet, so no other goroutine can observe it.
func beforeWorkers(p *core.Prog, a *svcAnchors, in ssa.Instruction, firstGo ssa.Instruction) bool {
	if firstGo == nil || a.Serve == nil {
		return false
	}
	fn := in.Parent()
	if fn != a.Serve && (fn.Parent() != nil || !p.Within(fn, a.Serve)) {
		return false
	}
	sites := p.Lift(in, a.Serve)
	if len(sites) == 0 {
		return false
	}
	for _, s := range sites {
		if !core.Dominates(s, firstGo) {
			return false
		}
	}
	return true
}

// workerWaitSites: the instructions of fn that wait for the workers - a plain
// WaitGroup.Wait on the worker group, or the plain call of a private helper that
// performs one on every path (awaitWorkers()).
func workerWaitSites(p *core.Prog, fn *ssa.Function, a *svcAnchors) []ssa.Instruction {
	var out []ssa.Instruction
	seen := map[ssa.Instruction]bool{}
	for _, h := range p.Helpers(fn) {
		for _, c := range core.Calls(h) {
			cal := c.Common().StaticCallee()
			if cal == nil || cal.String() != "(*sync.WaitGroup).Wait" || core.IsGo(c) || core.IsDefer(c) {
				continue
			}
			if f, ok := core.FieldOf(c.Common().Args[0]); !ok || f != a.WG {
				continue
			}
			if h != fn && !unconditionalIn(c) {
				continue
			}
			for _, site := range p.Lift(c, fn) {
				if !seen[site] {
					seen[site] = true
					out = append(out, site)
				}
			}
		}
	}
	return out
}

// firstWorkerStart: the first instruction of serve that starts a worker; what
// dominates it runs before any other goroutine of the run exists.
func firstWorkerStart(p *core.Prog, a *svcAnchors) ssa.Instruction {
	if a.Serve == nil {
		return nil
	}
	if ss := workerStartSites(p, a.Serve, a); len(ss) > 0 {
		return ss[0]
	}
	return nil
}

// workerStartSites: the instructions of fn that start workers - the go
// statements on the worker loop, or the plain calls of a private helper that
// contains them (startWorkers()).
func workerStartSites(p *core.Prog, fn *ssa.Function, a *svcAnchors) []ssa.Instruction {
	var out []ssa.Instruction
	seen := map[ssa.Instruction]bool{}
	for _, h := range p.Helpers(fn) {
		for _, c := range core.Calls(h) {
			if core.IsGo(c) && c.Common().StaticCallee() == a.Worker {
				for _, site := range p.Lift(c, fn) {
					if !seen[site] {
						seen[site] = true
						out = append(out, site)
					}
				}
			}
		}
	}
	return out
}

func c03Workers(r *core.Run, a *svcAnchors, e *lockEngine) {
	p := r.P
	fn := a.Serve
	fname := core.FuncName(fn)
	// Add operand vs loop bound (the Add and the loop may sit in a private helper of serve)
	var addArg ssa.Value
	var addCall ssa.Instruction
	var goInstr ssa.Instruction
	for _, h := range p.Helpers(fn) {
		for _, c := range core.Calls(h) {
			if cal := c.Common().StaticCallee(); cal != nil && cal.String() == "(*sync.WaitGroup).Add" {
				if f, ok := core.FieldOf(c.Common().Args[0]); ok && f == a.WG {
					addArg = c.Common().Args[1]
					addCall = c
				}
			}
			if core.IsGo(c) && c.Common().StaticCallee() == a.Worker {
				goInstr = c
			}
		}
	}
	af, aok := core.LoadedField(addArg)
	boundOK := false
	if goInstr != nil && aok {
		isField := func(v ssa.Value) bool { bf, ok := core.LoadedField(v); return ok && bf == af }
		isZero := func(v ssa.Value) bool { c, ok := core.ConstInt(v); return ok && c == 0 }
		for _, ed := range dominatingEdges(goInstr) {
			bo, ok := ed.If.Cond.(*ssa.BinOp)
			if !ok || ed.Succ != 0 {
				continue
			}
			// normalise to  counter OP limit
			x, y, op := bo.X, bo.Y, bo.Op
			if _, isPhi := x.(*ssa.Phi); !isPhi {
				x, y = y, x
				switch op {
				case token.LSS:
					op = token.GTR
				case token.GTR:
					op = token.LSS
				}
			}
			phi, ok := x.(*ssa.Phi)
			if !ok {
				continue
			}
			var init ssa.Value
			step := int64(0)
			for _, e2 := range phi.Edges {
				if b2, ok := e2.(*ssa.BinOp); ok && b2.X == ssa.Value(phi) && (b2.Op == token.ADD || b2.Op == token.SUB) {
					if c, ok := core.ConstInt(b2.Y); ok && c == 1 {
						step = 1
						if b2.Op == token.SUB {
							step = -1
						}
						continue
					}
				}
				init = e2
			}
			switch {
			case op == token.LSS && step == 1 && init != nil && isZero(init) && isField(y): // for i := 0; i < n; i++
				boundOK = true
			case op == token.GTR && step == -1 && init != nil && isField(init) && isZero(y): // for i := n; i > 0; i--
				boundOK = true
			}
		}
		// no store to the count field in serve
		for _, ac := range core.FieldAccesses(p.Helpers(fn), func(f core.Field) bool { return f == af }) {
			if ac.Write {
				boundOK = false
			}
		}
	}
	r.Check(boundOK && addCall != nil && goInstr != nil && p.DominatesIn(fn, addCall, goInstr), "S4", fname, "wg.Add(n)==n-go-statements", posOf(p, addCall), "WaitGroup.Add(n) precedes a 0..n loop of go worker over the same field "+af.String(), "WaitGroup.Add operand and the number of started workers are not provably the same (Wait would hang or return early)")
	if aok {
		c03WorkerCountPositive(r, "S4", af)
	}
	// callbacks run on the workers serve started - the goroutines Shutdown waits for - and nowhere
	// else: the function that accepts a callback starts no goroutine of its own (one that registers
	// itself with the WaitGroup only once it runs is invisible to a Wait that started before)
	{
		nGo := 0
		for _, h := range p.Helpers(a.Enqueue) {
			for _, f2 := range withAnon(h) {
				for _, in := range instrsOf(f2) {
					if g, ok := in.(*ssa.Go); ok {
						nGo++
						r.Bad("S4", core.FuncName(f2), "enqueue-starts-no-goroutine", p.InstrPos(g), "an accepted callback is run on a goroutine started by the submitting function: Shutdown's wait on the worker group does not cover it until it has registered itself, so Shutdown and Serve can return and the callback starts afterwards, on a stopped (or re-started) service")
					}
				}
			}
		}
		if nGo == 0 {
			r.OK("S4", core.FuncName(a.Enqueue), "enqueue-starts-no-goroutine", p.Pos(a.Enqueue.Pos()), "the submitting function only queues: callbacks run on the workers of the run")
		}
	}

	w := a.Worker
	wname := core.FuncName(w)
	done := false
	if len(w.Blocks) > 0 {
		for _, in := range w.Blocks[0].Instrs {
			if d, ok := in.(*ssa.Defer); ok {
				if cal := d.Common().StaticCallee(); cal != nil && cal.String() == "(*sync.WaitGroup).Done" {
					if f, ok := core.FieldOf(d.Common().Args[0]); ok && f == a.WG {
						done = true
					}
				}
			}
		}
	}
	r.Check(done, "S4", wname, "defer-wg.Done-at-entry", p.Pos(w.Pos()), "Done runs on every exit of the worker (incl. panics)", "the worker does not defer WaitGroup.Done in its entry block: an exit path leaves the count high and Shutdown hangs")

	// nil-observation protocol
	const (
		need   = 0
		open   = 1
		closed = 2
	)
	// (waiting and popping may live in private bool helpers of the worker loop: they are analysed in
	// place, and the loop's branch on their result follows only the matching returns)
	fl := &core.Flow{Fn: w, Entry: core.StateSet(0).Add(need), Tags: true, Inline: func(cal *ssa.Function) bool { return p.IsPrivateHelper(cal) && cal != a.Drain }}
	fl.Transfer = func(in ssa.Instruction, s int) core.StateSet {
		if c, ok := in.(ssa.CallInstruction); ok {
			if cal := c.Common().StaticCallee(); cal != nil && len(cal.Blocks) > 0 && fl.Inline(cal) {
				return core.StateSet(0).Add(s) // analysed in place: its own wait / unlock instructions count
			}
		}
		if e.isRelease(in) {
			if _, isRD := in.(*ssa.RunDefers); isRD {
				return core.StateSet(0).Add(s)
			}
			return core.StateSet(0).Add(need)
		}
		return core.StateSet(0).Add(s)
	}
	fl.Branch = func(iff *ssa.If, succ int, s int) (int, bool) {
		ci := core.Cond(iff.Cond)
		if ci.Kind == "nilcmp" && ci.HasFld && ci.Field == a.WorkQueue {
			truth := succ == 0
			if ci.Negate {
				truth = !truth
			}
			isNil := (ci.Op == token.EQL && truth) || (ci.Op == token.NEQ && !truth)
			if isNil {
				return closed, true
			}
			return open, true
		}
		return s, true
	}
	res := fl.Run()
	n := 0
	for _, c := range helperCalls(p, w) {
		if c.Parent() == a.Drain && a.Drain != w {
			continue
		}
		isWait := e.lockOp(c) == "wait"
		isDrain := c.Common().StaticCallee() == a.Drain
		if !isWait && !isDrain {
			continue
		}
		n++
		st := res.Before[c]
		what := "wait"
		if isDrain {
			what = "drain"
		}
		r.Check(st.Only(open), "S4", wname, what+"-only-when-queue-known-open", p.InstrPos(c), "the queue was tested non-nil since the last (re-)acquire", fmt.Sprintf("the worker can %s without having tested the queue for nil since it last held the lock afresh (state %v): it may sleep forever after close", what, st.List()))
	}
	// closed edge reaches return
	sawClosedReturn := false
	for _, ret := range core.Returns(w) {
		if res.Before[ret].Has(closed) {
			sawClosedReturn = true
		}
	}
	r.Check(sawClosedReturn && n > 0, "S4", wname, "nil-queue-edge-reaches-return", p.Pos(w.Pos()), "observing the closed queue leads to return", "no return is reached on the closed-queue edge")
	_ = sort.Strings
}

// helperChecksStarted: inside the private helper h every call that may reach
// Conn.Publish (not through enqueue) - and every direct Publish - is dominated
// by the started edge, or goes to another private helper of which that holds.
func helperChecksStarted(p *core.Prog, h *ssa.Function, mayPub map[*ssa.Function]bool, isStarted func(edgeCond) bool, enqueue *ssa.Function, depth int) bool {
	if depth > 3 {
		return false
	}
	n := 0
	for _, c := range core.Calls(h) {
		cal := c.Common().StaticCallee()
		direct := c.Common().IsInvoke() && c.Common().Method.Name() == "Publish"
		if !direct && (cal == nil || !mayPub[cal] || cal == enqueue) {
			continue
		}
		n++
		dom := false
		for _, ed := range dominatingEdges(c) {
			if isStarted(ed) {
				dom = true
			}
		}
		if dom {
			continue
		}
		if cal != nil && p.IsPrivateHelper(cal) && helperChecksStarted(p, cal, mayPub, isStarted, enqueue, depth+1) {
			continue
		}
		return false
	}
	return n > 0
}

// startedConst: the constant serve stores to publish the started state - the
// store that is not preceded by serve's wait for its workers (a serve that also
// stores the stopped state at its very end has two stores).
func startedConst(p *core.Prog, a *svcAnchors, ops []stateOp) int64 {
	var started int64 = -1
	last := int64(-1)
	waits := workerWaitSites(p, a.Serve, a)
	for _, op := range ops {
		if op.Op != "store" || op.Fn != a.Serve {
			continue
		}
		last = op.New
		late := false
		for _, w := range waits {
			if p.ReachesIn(a.Serve, w, op.Instr) {
				late = true
			}
		}
		if !late && started == -1 {
			started = op.New
		}
	}
	if started == -1 {
		return last
	}
	return started
}

// c03EnqueueStartedCheck: enqueue takes the queue lock only on the edge on
// which it has seen the started state (C03.S5; shared with C16.H2, where the
// atomic load is the barrier that publishes serve's unlocked initialisation).
func c03EnqueueStartedCheck(r *core.Run, rule string, a *svcAnchors, e *lockEngine, started int64) {
	p := r.P
	guardOK := false
	var firstLock ssa.Instruction
	// (the critical section may live in a private helper of enqueue: the lock is then judged
	// under the edges of the helper's call sites as well)
	for _, c := range helperCalls(p, a.Enqueue) {
		if e.lockOp(c) == "lock" && firstLock == nil {
			firstLock = c
		}
	}
	if firstLock != nil {
		for _, ed := range ctxEdges(p, firstLock, a.Enqueue, 0) {
			if startedEdge(ed, started) {
				guardOK = true
			}
		}
	}
	r.Check(guardOK, rule, core.FuncName(a.Enqueue), "started-check-dom-queue-access", posOf(p, firstLock), "submissions are refused unless the service is started", "enqueue touches the queue without a dominating state==started check")
}

// c03WorkerCountPositive: the number of workers serve starts is at least one:
// every store to the worker-count member writes a positive constant, or a
// value on an edge that established it to be positive. With zero workers the
// service subscribes, announces itself and queues every callback for nobody:
// no request is answered, no With callback ever runs.
func c03WorkerCountPositive(r *core.Run, rule string, af core.Field) {
	p := r.P
	n := 0
	// positive: v, used at `at` (reached through the phi source src when v came through a phi), is a
	// positive constant, a value tested to be positive on the way, or the result of a helper of the
	// module all of whose returns are (positiveOrDefault(n, def))
	var positive func(v ssa.Value, at ssa.Instruction, d int) string
	positive = func(v ssa.Value, at ssa.Instruction, d int) string {
		if d > 4 {
			return "a value computed too deep to follow"
		}
		for _, src := range phiSources(v) {
			if k, ok := core.ConstInt(src.V); ok {
				if k < 1 {
					return fmt.Sprintf("the constant %d", k)
				}
				continue
			}
			if call, ok := core.Strip(src.V).(*ssa.Call); ok {
				if cal := call.Common().StaticCallee(); cal != nil && len(cal.Blocks) > 0 && cal.Pkg != nil && strings.HasPrefix(cal.Pkg.Pkg.Path(), core.ModPath) && cal.Signature.Results().Len() == 1 {
					bad := ""
					for _, ret := range core.Returns(cal) {
						if w := positive(ret.Results[0], ret, d+1); w != "" {
							bad = w
						}
					}
					if bad != "" {
						return bad + " (returned by " + core.FuncName(cal) + ")"
					}
					continue
				}
			}
			ok := false
			for _, e := range srcEdges(at, src) {
				cnd, succ := e.Norm()
				bo, isB := cnd.(*ssa.BinOp)
				if !isB {
					continue
				}
				x, y, op := bo.X, bo.Y, bo.Op
				if core.Strip(y) == core.Strip(src.V) {
					x, y = y, x
					switch op {
					case token.LSS:
						op = token.GTR
					case token.GTR:
						op = token.LSS
					case token.LEQ:
						op = token.GEQ
					case token.GEQ:
						op = token.LEQ
					}
				}
				k, isK := core.ConstInt(y)
				if core.Strip(x) != core.Strip(src.V) || !isK {
					continue
				}
				truth := succ == 0
				switch {
				case op == token.GTR && truth && k >= 0,
					op == token.GEQ && truth && k >= 1,
					op == token.LEQ && !truth && k >= 0,
					op == token.LSS && !truth && k >= 1:
					ok = true
				}
			}
			if !ok {
				// a helper's parameter that every call site binds to a positive constant (the default)
				if prm, isP := core.Strip(src.V).(*ssa.Parameter); isP && p.IsPrivateHelper(prm.Parent()) {
					all := true
					idx := -1
					for i, q := range prm.Parent().Params {
						if q == prm {
							idx = i
						}
					}
					cs := p.CallersOf(prm.Parent())
					for _, c := range cs {
						if idx < 0 || idx >= len(c.Common().Args) {
							all = false
							continue
						}
						if k, isK := core.ConstInt(c.Common().Args[idx]); !isK || k < 1 {
							all = false
						}
					}
					if all && len(cs) > 0 {
						continue
					}
				}
				return valDesc(src.V) + " without a test that it is positive"
			}
		}
		return ""
	}
	for _, ac := range core.FieldAccesses(p.FuncsOfPkg(""), func(f core.Field) bool { return f == af }) {
		if ac.Kind != "store" {
			continue
		}
		st := ac.Instr.(*ssa.Store)
		n++
		bad := positive(st.Val, st, 0)
		r.Check(bad == "", rule, core.FuncName(ac.Fn), "worker-count-stored-positive", p.InstrPos(st), "the worker count is set to a positive constant or to a value tested to be positive", "the worker count can be set to "+bad+": with no worker the service subscribes and announces itself, every request and With callback is queued and none is ever run - no request gets a response")
	}
	if n == 0 {
		r.Bad(rule, af.String(), "worker-count-stored-positive", "-", "the worker count is never set (rule went vacuous)")
	}
}

// workerCountField: the member whose value serve hands to WaitGroup.Add before
// it starts the workers.
func workerCountField(p *core.Prog, a *svcAnchors) (core.Field, bool) {
	for _, h := range p.Helpers(a.Serve) {
		for _, c := range core.Calls(h) {
			if cal := c.Common().StaticCallee(); cal != nil && cal.String() == "(*sync.WaitGroup).Add" {
				if f, ok := core.FieldOf(c.Common().Args[0]); ok && f == a.WG {
					if af, ok := core.LoadedField(c.Common().Args[1]); ok {
						return af, true
					}
				}
			}
		}
	}
	return core.Field{}, false
}
