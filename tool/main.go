// resverif decides structural clauses of the go-res properties C01..C20 by
// static analysis of /repo's current working tree (go/packages + go/ssa).
// It never builds, imports-for-execution, or runs go-res code.
package main

import (
	"flag"
	"fmt"
	"os"
	"path/filepath"
	"runtime/debug"
	"sort"
	"strconv"
	"time"

	"resverif/core"
	"resverif/props"
)

func main() {
	prop := flag.String("property", "", "property id (C01..C20)")
	tier := flag.String("tier", "quick", "quick|thorough")
	repo := flag.String("repo", "/repo", "repository root to analyse")
	verif := flag.String("verif", "/verif", "verif directory (evidence, reports, known findings)")
	list := flag.Bool("list", false, "list registered properties")
	selftest := flag.Bool("selftest", false, "run the mutant battery of the property (thorough tier does this too)")
	all := flag.Bool("all", false, "development aid: load once and run every property (quick), printing '== <id>: CAUGHT|silent' per property; evidence goes to -verif")
	noSelf := flag.Bool("no-selftest", false, "skip the mutant battery in thorough tier (used by the battery's own children)")
	flag.Parse()

	if *list {
		ids := props.IDs()
		sort.Strings(ids)
		for _, id := range ids {
			fmt.Println(id)
		}
		return
	}
	if *all {
		runAll(*repo, *verif)
		return
	}
	fn := props.Lookup(*prop)
	if fn == nil {
		fmt.Fprintf(os.Stderr, "ERROR unknown property %q\n", *prop)
		os.Exit(2)
	}
	if *tier != "quick" && *tier != "thorough" {
		fmt.Fprintf(os.Stderr, "ERROR unknown tier %q\n", *tier)
		os.Exit(2)
	}
	seed := 0
	if s := os.Getenv("VERIF_SEED"); s != "" {
		if n, err := strconv.Atoi(s); err == nil {
			seed = n
		}
	}
	start := time.Now()
	abs, _ := filepath.Abs(*repo)

	defer func() {
		if r := recover(); r != nil {
			fmt.Fprintf(os.Stderr, "ERROR analyser panic: %v\n%s\n", r, debug.Stack())
			fmt.Printf("VIOLATION property=%s replay=%s\n", *prop, "analyser-panic(see stderr)")
			os.Exit(1)
		}
	}()

	p, err := core.Load(abs)
	if err != nil {
		// A tree that does not load or type-check gets no verdict from us, and
		// the tool never vouches for what it could not analyse: exit 1 with a
		// VIOLATION line naming the reason.
		fmt.Fprintf(os.Stderr, "ERROR %v\n", err)
		fmt.Printf("VIOLATION property=%s replay=%s\n", *prop, "load-error(see stderr)")
		os.Exit(1)
	}
	run := core.NewRun(*prop, *tier, p)
	run.Analysed["packages_loaded"] = p.NPkgAll
	run.Analysed["library_packages"] = len(core.LibPkgs)
	run.Analysed["library_functions"] = len(p.Funcs)
	nb, ni := 0, 0
	for _, f := range p.Funcs {
		nb += len(f.Blocks)
		for _, b := range f.Blocks {
			ni += len(b.Instrs)
		}
	}
	run.Analysed["blocks"] = nb
	run.Analysed["instructions"] = ni
	fn(run)

	if (*tier == "thorough" || *selftest) && !*noSelf {
		st := props.SelfTest(*prop, abs, *verif)
		run.Extra["selftest"] = st
	}
	res := run.Finish(*verif, seed, start, false)
	os.Exit(res.Exit)
}

// runAll is a development aid (used by tools/tryseed.sh): one load, every
// property at the quick tier. Registered checks never use it.
func runAll(repo, verif string) {
	abs, _ := filepath.Abs(repo)
	p, err := core.Load(abs)
	ids := props.IDs()
	sort.Strings(ids)
	if err != nil {
		fmt.Fprintf(os.Stderr, "ERROR %v\n", err)
		for _, id := range ids {
			fmt.Printf("== %s: CAUGHT\n  unresolved: load-error\n", id)
		}
		os.Exit(1)
	}
	exit := 0
	for _, id := range ids {
		func() {
			defer func() {
				if r := recover(); r != nil {
					fmt.Printf("== %s: CAUGHT\n  undecided: analyser-panic %v\n", id, r)
					exit = 1
				}
			}()
			run := core.NewRun(id, "quick", p)
			props.Lookup(id)(run)
			fmt.Printf("== %s\n", id)
			res := run.Finish(verif, 0, time.Now(), false)
			if res.Exit != 0 {
				fmt.Printf("== %s: CAUGHT\n", id)
				exit = 1
			} else {
				fmt.Printf("== %s: silent\n", id)
			}
		}()
	}
	os.Exit(exit)
}
