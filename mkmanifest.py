#!/usr/bin/env python3
"""Regenerates /verif/MANIFEST.json from the table below (run after adding a property)."""
import json, os, subprocess

HERE = os.path.dirname(os.path.abspath(__file__))

NOTE_COMMON = ("Trusted: Go type checker and go/ssa construction (x/tools v0.29.0), semantics of sync, sync/atomic, "
               "encoding/json, and the documented semantics of nats.go / badger / keylock / taskqueue / timerqueue. "
               "User callbacks and third-party calls are opaque (havoc for the tracked fact). The check decides the named "
               "structural clauses on every CFG path / call site of /repo's current tree; it does not decide the "
               "runtime-value part of the property listed under coverage.not_decided in the evidence file.")

# id -> (technique, level text, design_ref)
CLAIMS = {
 "C01": ("lockset dataflow ({Free,Held}, inter-procedural) + critical-section typestate (retire / lookup-register / pop) + who-may-call census of callback kinds",
         "Schedule-independent structural obligations: queue state is touched only with the queue lock held; emptiness re-check and unregistering, lookup and "
         "register/append, non-empty check and pop are each one critical section; callbacks run with the lock released; every callback kind is reachable only "
         "through the per-group enqueue function with the routed group id, which is evaluated on the tokens of the match record assembled atomically at the accept sites (C06.R4 obligations, rule F3). With a correct mutex these imply per-group exclusion for every interleaving; the "
         "value of the group id for a given name is C06's and is not decided here.", "DESIGN.md section 4 C01"),
 "C02": ("FIFO shape census of both queues + counting typestate over the drain loop + no-drop typestate over enqueue + listener call-path check",
         "Structural necessary conditions of exactly-once / in-order: both queues are tail-append / head-pop only, the drain loop calls each slot once and advances by one, "
         "every accepted submission stores the callback exactly once and wakes a worker, one synchronous listener feeds requests with no go on the path to enqueue, and With "
         "errs iff no handler. The group registry is re-created per run, so no submission is parked on an orphaned work item after a restart. The order observed under a concrete schedule is not executed; it follows from these shapes plus the mutex.", "DESIGN.md section 4 C02"),
 "C03": ("state-machine extraction over atomic accesses + dominance-order obligations + critical-section typestate (closed queue stays closed) + who-may-write of the connection field",
         "Decides for every interleaving the structural causes of hangs, leaked workers, double close, use-after-clear and refused restarts: legal state transitions only, close protocol order, "
         "workers awaited before 'stopped', worker exits on observing the closed queue, started-checks dominate every publishing entry point, a closed work queue is never re-opened, the listener receives on the channel value this run created (not a re-read of the cleared field), the connection "
         "field is not written while readers may run (one known finding), and every user callback is invoked on a worker goroutine (which Shutdown awaits) or synchronously inside one - never directly on the timer or a foreign goroutine. Bounded time itself is not decided.", "DESIGN.md section 4 C03"),
 "C04": ("flag-sensitive must-reply typestate over SSA CFGs + who-may-write/publish census",
         "Path-universal structural obligations: on every CFG path of request processing (handlers as havoc: reply 0/1 times, return or panic) "
         "library code replies exactly once; reply funnel guarded by the replied flag; recover closure replies iff not replied; every response "
         "method that may reply must reply (private helpers analysed in place, also across a boolean helper result); requests are not parked on an orphaned work item after a restart; the service work queue is only tail-appended and head-dropped (no bounded copy that discards queued requests); the lookup entry, which runs on the listener goroutine outside any recover, relates every index / slice bound on the requested name to the name's length (no implicit panic for a short name). Level 'other': necessary (and jointly close to sufficient) conditions of the behavioural statement, "
         "decided statically for all handler programs rather than sampled.", "DESIGN.md section 4 C04"),
 "C08": ("event classification (apply/publish/listener/panic) + path-universal typestate and dominance over every event method + no-go-on-publish-path census",
         "Decides for every handler/listener program the order apply -> publish -> listeners, at most one publish per call, that a failing apply, an apply reporting no change, an empty change "
         "and every invalid call (wrong type, negative index, reserved or malformed name - the validator rejecting empty, <33, >126 and the reserved characters) reach no publish and no listener, that Event fields flow from the apply results / arguments, and that "
         "nothing between an event/reply call and Conn.Publish is asynchronous. What apply handlers and listeners do is opaque.", "DESIGN.md section 4 C08"),
 "C05": ("table bijection (payload struct -> request field -> accessor), sibling agreement (dispatcher vs subscribe, call vs auth lookup), error-mapping value flow, literal vocabulary",
         "Decides the structure that carries the for-all-inputs statement: the payload is decoded by whole-input json.Unmarshal of the message data and a decode error never reaches a handler; each decoded payload member reaches exactly one accessor unconverted; routed data comes from the Match, whose params come from the atomically assembled match record; the dispatcher's "
         "request types equal the subscribed ones; call/auth use [method] then [*] then methodNotFound and new prefers New; method stripping and method wildcards cover the same types; recovered "
         "*Error is passed verbatim and everything else becomes an internal error; an error-reply funnel sends the marshalled *Error it was handed (a static literal only on the marshal-failure edge, never chosen by the error's code); not-found / method-not-found / missing-reply outcomes use literals with the right code. Subject split arithmetic "
         "and JSON decoding are not decided.", "DESIGN.md section 4 C05"),
 "C06": ("CFG-reachability order of candidate reads + units rule for mount-relative indexes (value-flow census) + panic-guard dominance at registration + match-record assembly census",
         "Decides structural necessary conditions of routing: literal before placeholder before wildcard with fall-through on a failed recursive match; mount-relative index fields are written as "
         "tokenIndex-mountIndex and rebased at every read (one known finding: group tag indexes); registration validates before storing and accepts the documented token forms (analysed under the assumption that the token is the anonymous placeholder '*': no panic reachable - a genuine defect here was repaired, fix 4aaba0d); a group ${tag} is located by whole-token equality in the split pattern; the lookup call tree writes no shared state (concurrent lookups cannot mix their tokens) and matches the mux path on a token boundary; a Parallel handler is registered with the empty group whatever its Group option says; the trie matcher returns false only after the literal, placeholder and full-wildcard children were all tried; the match record (node, mount index, params) is written "
         "atomically at the accept sites and the returned Match takes handler, listeners and group from that one node. Equality with a reference matcher over all inputs is not decided.", "DESIGN.md section 4 C06"),
 "C07": ("funnel census + subject-template matching over concatenation trees + validator rune-class facts + struct-tag / literal vocabulary checks",
         "Decides for every handler program that each published subject is an instance of one of the five documented templates with validated variable parts, that the token validator rejects "
         "everything NATS forbids, that every reply envelope and every static payload literal has exactly one of result/resource/error with string code/message, that meta is only reachable "
         "behind the HTTP and not-replied guards, that marshal output is published only when err==nil and a marshal failure always becomes system.internalError (ToError maps by plain type assertion, no unwrapping), that every reply payload is a package-level literal or json.Marshal output (never string concatenation), that pre-responses and event payload structs have the documented shape and the pre-response's milliseconds are the guarded non-negative duration divided by a constant (no overflow-prone arithmetic before the division). The validator's character class is computed by one dataflow run per character value (branches on the argument's characters pruned), not by matching source shapes. JSON "
         "produced by encoding/json for user values is trusted.", "DESIGN.md section 4 C07"),
 "C10": ("sibling agreement between the store handler's get path and change path (default substitution, Transform) + edge placement in the model diff + nil-edge selection of create/delete",
         "Decides the structural part of client coherence: the representation the change handler diffs is built like the one get serves (a missing value becomes the default with and without a "
         "transformer - a genuine defect here was repaired, fix 9e8a6c6 -, stored values go through Transform on both paths), create / delete are selected on the nil edges of those "
         "representations with the resource id from IDToRID of the after (else before) value, and the model diff marks removed keys with the delete action on the not-present edge (a scan not conditioned on the new map's size) and reports "
         "a key only when it is new or not Equal; the get handler replies while its read transaction is open, so an event published under a writer's transaction cannot overtake a response built from an older value. The remove/add edit script of the collection diff (LCS index arithmetic) is NOT decided: no static argument in reach bounds it.", "DESIGN.md section 4 C10"),
 "C11": ("lock-mode pairing census + sentinel reachability + callback-count typestate with argument value flow + closure-order dominance + receiver-kind cache-coherence rule",
         "Decides per shipped store the structural part of map-equivalence: Read/Write acquire and the txn's own Close releases the same mode on the txn id exactly once; duplicate / not-found "
         "sentinels are returned and the raw database sentinel is not; Create guards the empty id; exactly one change fan-out on success returns, after the success edge, with (id, value read in "
         "the same transaction, new value), none on error returns; type check before the transaction, veto before the write inside it; in badgerstore Update / Delete every database write follows a read of the key on all paths (the database itself accepts writes to missing keys); a cached value in the txn is dead or refreshed by every "
         "mutation. Linearizability of concurrent histories is not executed.", "DESIGN.md section 4 C11"),
 "C12": ("who-may-call census of badger transaction writes (value flow to the DB.Update closure parameter) + transaction-count typestate + dominance obligations inside Init's closure",
         "Decides necessary conditions of crash atomicity: all database writes happen on the transaction of one DB.Update closure, each mutation is exactly one transaction acknowledged only after "
         "commit, Init reads the marker, seeds and writes the marker in one closure (marker read first, marker write last, found edge writes nothing, existing ids skipped, only written seeds announced to the change listeners), RebuildIndexes drops "
         "the index prefixes before its single re-scan. Crash points, fsync and BadgerDB recovery are not explored.", "DESIGN.md section 4 C12"),
 "C13": ("symbolic linear layout check of hand-built keys + writer/reader constant agreement + funnel census + badger iterator API-usage rule",
         "Decides the structural part of index queries: key and prefix buffers are exactly filled for every input length and agree with the reader on ':' / separator / name length; nil keys are "
         "never indexed and nil is not confused with an empty key; maintenance runs only in the FIFO task Flush awaits, on before-values that are the stored values (transaction cache dead or refreshed); a key slice handed to a pending transaction write is not afterwards reused as a writable buffer; Init announces only the seeds it wrote (no phantom index entries); a reverse-capable iterator is not sought with the bare prefix; limit 0 and "
         "negative limit guards. The sorted/filtered/windowed result itself is arithmetic over data and not decided.", "DESIGN.md section 4 C13"),
 "C14": ("must-pass-through dominance for the query-change fan-out + guard analysis of the unchanged-key predicate with sibling agreement + reset-edge reachability in the query handler",
         "Decides that index maintenance and its notifications run only as tasks of the blocking FIFO queue (per-id order) on before-values that are the stored values, that subscribers are notified only after the index transaction committed and only when some key changed, that the unchanged-key predicate keeps nil and empty keys apart and is the "
         "same in maintenance and affectsQuery, and that the handler honours the reset flag and dispatches the same event names in both paths. Soundness of affected-ness for arbitrary key "
         "functions is not decided.", "DESIGN.md section 4 C14"),
 "C17": ("sibling analysis of the pattern scanners: token-start-flag recogniser (loop-head bool phi) + guard dominance on every wildcard comparison + validator rune-class agreement + single-pass replacement rule",
         "Decides that no pattern operation can give '$', '*' or '>' a wildcard meaning in the middle of a token (each wildcard comparison is under a token-start guard; Values' exception is "
         "accepted only with its whole-token witness; the mux compares token[0]), that no operation looks for a wildcard character with a position-blind strings/bytes search, that a one-token wildcard never covers a full wildcard in Matches, that the three validators accept the same character range (computed per character value by dataflow with the character comparisons pruned), that tag replacement is one simultaneous pass, and that the trie matcher gives up only after every alternative was tried (routing accepts what Pattern.Matches accepts for a registered pattern). "
         "Agreement of the operations on every string and round-trips are not enumerated.", "DESIGN.md section 4 C17"),
 "C09": ("who-may-read/write census of the ownership lists + dominance (default before read) + sibling comparison of the two subscription loops + predicate/dispatcher field-set agreement + possibly-empty-value use census",
         "Decides that subscriptions and reset are built from the same lists, defaulted only when nil, that request types x lists and the method wildcard are formed as documented, that every subscription passes "
         "the in-channel with the right queue variant and propagates its error, that both subscription loops skip covered patterns (access loop: known finding) with the covering test applied to every other pattern (no text-dependent pre-filter), that handler-kind detection traverses the whole trie, that default ownership looks at "
         "the handler kinds the dispatcher serves, that an empty service path never becomes a bare token, and that reconnects re-announce ownership. Covering for arbitrary user lists is not decided.", "DESIGN.md section 4 C09"),
 "C18": ("constant / struct-tag / literal vocabulary agreement across three packages (literals parsed inside the analyser) + symbolic linear layout check of hand-assembled buffers + value-flow of the variable segment",
         "Decides the structural part of wire compatibility: reference, soft-reference, delete-action and data-value members agree between service, store and client, and the data member is decoded into json.RawMessage so that null stays distinct from absent, no UnmarshalJSON keeps its input slice, and the value parser assigns an object class only when the other members are known absent; response / get / access result "
         "members agree between service and client; every hand-built JSON buffer is exactly filled for all input lengths and its variable part is json.Marshal output (so escaping is the "
         "encoder's); the client's inbox stays subscribed (buffered, never limited or ended early) until SendRequest returns, so a response published after a pre-response reaches the parser. decode(encode(x))==x on values is not decided.", "DESIGN.md section 4 C18"),
 "C19": ("path obligations on SendRequest's CFG: release-after-acquire with deferred call, error-edge reachability, select-arm classification, dominating-condition census for the timer restart, literal agreement with the service",
         "Decides that the inbox subscription is released on every return after a successful subscribe and is touched by nothing else before (no AutoUnsubscribe/Drain ending the interest early), that the inbox channel is buffered, that marshal/subscribe/publish failures return an internal error before the wait loop, "
         "that the timer arm returns ErrTimeout and a non-pre-response is parsed and returned, that a parsed timeout pre-response unconditionally stops the timer, installs one of exactly the "
         "announced milliseconds and notifies every callback, and that the pre-response key matches the service's literal. Wall-clock behaviour is not decided.", "DESIGN.md section 4 C19"),
 "C15": ("must-reply typestate on query request handling + funnel / who-may-call census of the nil callback + value identity of the inbox subject + loop-capture rule + channel-close reachability for library goroutines",
         "Decides that every query request path replies exactly once whatever the callback does, that requests and expiry run in the resource's group, that the nil callback has exactly two mutually "
         "exclusive sources and a stored subscription is always registered for expiry, that one fresh inbox value is subscribed and announced, that the callback is reached only after the decoded query was tested non-empty (an empty payload included), that the expiry queue is rebuilt per run from the configured duration, that queued closures do not share a loop variable, and "
         "that every library goroutine ranging over a channel can terminate (query listener: known finding). Timing of late requests versus the drain is not decided.", "DESIGN.md section 4 C15"),
 "C16": ("lockset discipline (lock-state dataflow x field access census) on the shared structures with named exemptions + logger/mock-store lock rules + shared-loop-variable rule",
         "A discipline check, not a race proof: every Service/work field written outside configuration and initialisation is accessed only under the queue mutex or only atomically (two known "
         "findings: Shutdown clearing nc/inCh), the in-memory logger's buffer is used under its mutex, the mock store's map only inside transaction methods (or their private helpers), the check-then-register of a group's work item is one critical section (the premise of group confinement, shared with C01.A2), stores into request objects target memory allocated by the constructing function (no pointer into the query event or service), lookups share no scratch state, badgerstore Store / QueryStore fields are written only by constructors and the store's own configuration methods (transactions on different ids run in parallel), and no closure handed on from a loop "
         "shares a re-assigned variable. Per-request objects are confined by contract and not analysed; user code and third-party modules are out of reach.", "DESIGN.md section 4 C16"),
 "C20": ("who-may-call census of transaction writes + guard -> sentinel signature extraction with comparison operators + sibling agreement of the two middleware copies + value-flow of old values",
         "Decides that every middleware apply handler reads and rewrites the resource inside one DB.Update closure, that the inapplicability guards (add len<idx, remove len<=idx, create on "
         "existing/defaulted, change/remove on missing without default) return their sentinel before the write, that the two copies agree guard-for-guard, that 'absent' is decided by the map's "
         "presence flag and old values are the looked-up values or the delete action, that delete returns what its transaction read, and that the shared default bytes are never a write destination (ValueCopy buffer, element store) no element is inserted through a truncated prefix of a slice whose tail is read afterwards, and the raw default (the value events on an unstored resource are folded over) is the marshalled Default option itself, not a callback's view of it. Fold-equivalence over event histories and reopen are "
         "not decided; 'a failing apply publishes nothing' is C08.O3.", "DESIGN.md section 4 C20"),
}

# sentences appended to the level text (rules added after the table above was written)
ADDENDA = {
 "C01": " The group template is evaluated with the tag index used only as an index (a lone ${tag} on token 0 is a tag, not a string part). The group registry is replaced only before the workers of a run start. The lookup that evaluates the group template writes no shared state. The group evaluator returns the resource name only for the nil group.",
 "C02": " Every worker is started before the state from which callbacks are accepted is published. An exact accept site of the matcher lies behind the node's handler test (a handler-less node never ends the backtracking). The handler lookup behind With writes no shared state. The index of a group tag is used only as an index (a tag on token 0 is a tag). The group a request reports is the routed group; WithResource and query callbacks are keyed by it.",
 "C05": " The pattern selected is the matcher's: literal, placeholder, wildcard in that order with a failed recursive match falling through (C06.R1 obligations). The mux path is stripped only at a token boundary (C06.R7 obligations). The group registry is re-created before the workers of a run start. Error replies carry the error handed in, converted by ToError only. The covering filter of the subscribing loop ranges over the whole pattern list. No append onto a truncated prefix of a slice parameter (the request message is not overwritten before it is parsed).",
 "C07": " The token-reset subject is tested non-empty in addition to the path validator, which accepts the empty path. The custom event method panics on every reserved and malformed name before publishing. No append onto a truncated prefix of a slice parameter (a payload is not written after it was encoded). In every reply encoder the error edge of json.Marshal still reaches a call that always replies.",
 "C08": " Every resource constructed with a routed handler is given the listeners of the same match. In a method that notifies listeners, every path that published reaches the listener notification. An event funnel publishes on every path to its return (only a payload that cannot be encoded leaves without). No recover in an event method's unit: a panicking apply handler has failed. Listeners are called by the event method itself, not from a closure. The value an apply handler returned is handed on unmodified.",
 "C09": " A subscription error is tested or returned before the next subscription is made (typestate over subscribe and its helpers). The subscribing function is called only from the start-up sequence. The ownership setter keeps nil and empty apart. Pattern.Matches, which decides covering, gives wildcard meaning only at a token start.",
 "C12": " A mutation never decides from a stale cached before-value (C11.K2 obligations). The adder of Init either collects an entry or records a non-nil error that the transaction body returns before writing. Inside an update closure no second transaction is opened and every read goes through the closure's own transaction. The id of a stored key is the key minus the prefix, never a cutset trim. The reader of index entries splits at the last separator. No database key is built by appending to a slice kept in the store.",
 "C13": " In the index scan offset, limit and the result only count entries the key filter accepted (per-iteration typestate). No success return inside a loop over the indexes of the store. The query store is told of a change only after the commit (C10.G2 obligations). Key presence is tested by nil, never by length. The reverse seek key is the prefix extended by 0xFF. An id is taken from an index entry only when the query prefix ends before the separator.",
 "C14": " Init announces as created only what it wrote (C12.I2 obligations). No queued closure captures a re-assigned loop variable (C15.C1 obligations). A change is declared not to affect a query only from tests of the before/after keys. Key presence is tested by nil, never by length. Index maintenance starts no goroutine. QueryChange.Events is asked with the query the request handler translated the request into.",
 "C16": " The lazily defaulted ownership lists are exempt only when the defaulting provably closes their ==nil guard (non-nil on every path), so that later ResetAll calls only read. In the stop sequence per-run fields are written before the stopped state is published. No append onto a slice field of a query value (query values are shared by value). No append onto a slice living in a shared object unless the result is stored back into it. The producers touch the queue state only after an atomic load has seen the started state. A query event's channel is not closed while its subscription can still deliver. The group evaluator returns the resource name only for the nil group.",
 "C18": " Envelope members the client does not declare (meta) are tolerated: no strict decoder in the client package. Value.Equal reads, per value class, only members the parser assigns on every path to that class. Request.Error and its siblings reply with ToError(err) on every path (no classification of the error). Reply payloads are package-level literals or json.Marshal output. The value parser decodes into a fresh object. No append onto a truncated prefix of a slice parameter. IsValidRID accepts exactly 33..126 with ? singled out.",
 "C20": " No slice that may hold a field of the handler is appended to, copied into or stored into. Bytes handed to Txn.Set are never backed by a pooled buffer. The error of the write of the resource flows into the update closure's result. Only the delete handler deletes the stored resource. After DB.Update has returned without error an apply handler returns no error of its own.",
 "C03": " The stop transition out of the started state is one compare-and-swap. What serve publishes after declaring the service started goes through a state-checked entry point. The submitting function starts no goroutine; the worker count is stored positive.",
 "C04": " No call on the optional logger is reachable without a non-nil test of it (the logging helpers run where a panic kills the process). The dispatcher is reached only with the Match the handler lookup returned on its success edge. A work item's callback queue is only tail-appended and drained by an index that re-reads its length. The worker count is stored positive. The library's own connection options never disable the reconnect buffer or reconnecting (a frozen fact about nats.go: a negative ReconnectBufSize means no buffer).",
 "C06": " Placeholder records are compared member by member at registration; every trie traversal that carries positions rebinds its mount index at mount points. A path parameter is recorded only for a named placeholder; exact accept sites lie behind the node's handler test. The name is tokenised at every separator: no Fields/FieldsFunc, no cutset trim with a variable set. After a failed attempt on the literal child the placeholder child is tried before the wildcard. The group evaluator returns the resource name only for the nil group.",
 "C10": " The registration-time traversal that tells a handler its pattern is mount-aware (C06.R11 obligations). The change fan-out of the badger store runs after the committed update, not inside its closure. A value the transformer refuses counts as missing in the change handler; the handler does not give up on the change. The change handler publishes its events inside the store's change callback (no With / goroutine). Value.Equal compares encoded bytes (no decoding in its unit).",
 "C15": " The expiry queues the nil call on every path. The query event's channel is closed, if at all, only after the subscription delivering into it is gone. The query request's reply funnel tests and sets the replied flag for every reply method. A query request is decoded into a fresh value. The resource kept in a query event carries the receiver's group.",
 "C17": " The mux path is stripped only at a token boundary (C06.R7 obligations). Search needles assembled from parts (\"$\"+tag) count as wildcard searches. The registration-time traversal is mount-aware; tokenisation is exact (no Fields/FieldsFunc, no variable cutset trim). A literal byte comparison in a pattern scanner is dominated by the wildcard decision. The common registration function validates the pattern itself. The trie insertion reaches no panic for the anonymous placeholder (any number of times in one pattern).",
 "C19": " The inbox channel is made for the request (not pooled or shared); anchors are resolved over SendRequest and its private helpers. InternalError returns its own fresh Error with the internal-error code on every path. Every path from a receive on the inbox to ParseResponse tests the message's data.",
 "C11": " No key is built by appending to a slice kept in the store. A store's fan-out function reaches the listeners on every call. The bytes handed to Txn.Set are not backed by a pooled object.",
}

NA = {}

def main():
    props = [json.loads(l) for l in open(os.path.join(HERE, "properties.jsonl"))]
    checks, na = [], []
    for p in props:
        pid = p["id"]
        if pid in CLAIMS:
            tech, text, ref = CLAIMS[pid]
            checks.append({
                "property_id": pid,
                "quick_cmd": "./check %s quick" % pid,
                "thorough_cmd": "./check %s thorough" % pid,
                "evidence_file": "/verif/evidence/%s.json" % pid,
                "replay_cmd_template": "cat {path}",
                "engine": "resverif",
                "level_claimed": {"category": "other", "text": text + ADDENDA.get(pid, ""), "design_ref": ref},
                "level_note": NOTE_COMMON,
                "technique": "static analysis: " + tech,
            })
        else:
            na.append({"property_id": pid, "reason": NA.get(pid, "check not built yet (DESIGN.md section 8 build order); will be claimed when its rules exist")})
    m = {
        "version": 1,
        "setup_cmd": "cd /verif/tool && GOFLAGS=-mod=mod GOPROXY=off GOSUMDB=off GOTOOLCHAIN=local GOWORK=off go build -o /verif/bin/resverif .",
        "hooks": {"guard": "verif",
                  "enable": "no hooks needed: the analyser reads /repo's sources (go/packages + go/ssa); nothing in /repo is built with a tag",
                  "baseline_off_cmd": "cd /repo && go test -vet=off -count=1 ./...",
                  "source_commits": [], "add_only": True},
        "engines": [{"name": "resverif", "path": "/verif/tool",
                     "serves_properties": sorted(CLAIMS),
                     "kind_free_text": "repository-specific static analyser over the type-checked SSA of /repo (lockset, typestate, who-may-call census, vocabulary agreement, sibling comparison); re-loads /repo's working tree on every run"}],
        "checks": checks,
        "notes": "quick = direct analysis of /repo's current tree (about 6 s per property); thorough = the same analysis plus the mutant/refactor battery under /verif/mutants/<id>/ applied to scratch copies of the current tree (self-test of the checker, informational). Known findings: /verif/known_findings.txt. Seeded breaking changes and which checks catch them: /verif/seeded/ and DESIGN.md section 9.",
        "not_applicable": na,
    }
    json.dump(m, open(os.path.join(HERE, "MANIFEST.json"), "w"), indent=1)
    print("claimed:", sorted(CLAIMS), "n/a:", [x["property_id"] for x in na])

if __name__ == "__main__":
    main()
